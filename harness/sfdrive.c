/*
** sfdrive : script interpreter binding the TLA+ specification to libsndfile.
**
** Reads a script (one command per line) and executes each command on the real
** library, writing one ndjson event per call with arguments, results and the
** projected abstract state (through the guarded hook sf_verif_snapshot).
** It has no expectations of its own : the oracle is the TLA+ trace validator.
**
** usage: sfdrive <script> <events.ndjson> [--from <scenario index>] [--timeout <sec>]
*/
#define _GNU_SOURCE
#include <stdio.h>
#include <stdlib.h>
#include <string.h>
#include <stdint.h>
#include <stddef.h>
#include <unistd.h>
#include <fcntl.h>
#include <errno.h>
#include <signal.h>
#include <math.h>
#include <time.h>
#include <dirent.h>
#include <pthread.h>
#include <sys/mman.h>
#include <sys/stat.h>
#include <sys/time.h>
#include <sys/types.h>
#include <sndfile.h>

/* ---- hook declared by the harness (guard LIBSNDFILE_VERIF in src/sndfile.c) ---- */
typedef struct
{	long long	error, mode, last_op, have_written ;
	long long	read_current, write_current, frames ;
	long long	dataoffset, datalength, dataend, filelength, fileoffset ;
	long long	blockwidth, bytewidth ;
	long long	header_indx, header_end, header_len ;
	long long	str_used, str_len ;
	long long	wch_used, wch_count, rch_used, rch_count ;
	long long	auto_header, norm_float, norm_double, add_clipping ;
	long long	float_int_mult, scale_int_float ;
	long long	is_pipe, virtual_io, seekable ;
	long long	channels, samplerate, format, sections ;
	long long	peak_present, peak_channels ;
	double		peak_value [16] ;
	long long	peak_pos [16] ;
	long long	have_seek, have_write_header, ieee_replace, endian, data_endswap ;
} SF_VERIF_STATE ;
int sf_verif_snapshot (SNDFILE *sndfile, SF_VERIF_STATE *out) ;

#if defined(__has_feature)
#  if __has_feature(address_sanitizer)
#    define HAVE_ASAN 1
#  endif
#endif
#ifdef HAVE_ASAN
size_t __sanitizer_get_current_allocated_bytes (void) ;
void __sanitizer_set_death_callback (void (*cb) (void)) ;
void __sanitizer_symbolize_pc (void *pc, const char *fmt, char *out_buf, size_t out_buf_size) ;
#endif

/* ---- pinned clock (link-time wraps) ---- */
time_t __wrap_time (time_t *t) { time_t v = 1000000000 ; if (t) *t = v ; return v ; }
int __wrap_gettimeofday (struct timeval *tv, void *tz) { (void) tz ; if (tv) { tv->tv_sec = 1000000000 ; tv->tv_usec = 0 ; } return 0 ; }

/* ---- driver-side allocation accounting, so the heap ledger only shows the library ---- */
static long long drv_bytes = 0 ;
static void *dmalloc (size_t n)
{	size_t *p = malloc (n + 16) ;
	if (!p) { fprintf (stderr, "sfdrive: out of memory\n") ; exit (2) ; }
	p [0] = n ; drv_bytes += (long long) n + 16 ;
	return (char *) p + 16 ;
}
static void dfree (void *q)
{	if (!q) return ;
	size_t *p = (size_t *) ((char *) q - 16) ;
	drv_bytes -= (long long) p [0] + 16 ;
	free (p) ;
}
static void *drealloc (void *q, size_t n)
{	void *r = dmalloc (n) ;
	if (q)
	{	size_t old = ((size_t *) ((char *) q - 16)) [0] ;
		memcpy (r, q, old < n ? old : n) ;
		dfree (q) ;
		}
	return r ;
}
static long long heap_now (void)
{
#ifdef HAVE_ASAN
	return (long long) __sanitizer_get_current_allocated_bytes () - drv_bytes ;
#else
	return 0 ;
#endif
}

/* ---- output ---- */
static FILE *evf ;
static int scn_id = -1, seqno = 0 ;
static const char *cur_call = "none" ;
static int cur_h = -1 ;
static char scn_tag [256] = "" ;

static volatile int ev_open = 0 ;	/* an event line has been started and not finished (a crash inside the call being logged) */
static void ev_begin (const char *op, int h)
{	ev_open = 1 ;
	fprintf (evf, "{\"s\":%d,\"i\":%d,\"h\":%d,\"op\":\"%s\"", scn_id, seqno++, h, op) ;
}
static void ev_int (const char *k, long long v)
{	/* TLC integers are 32 bit : clamp visibly rather than wrap silently */
	if (v > 2147483647LL) v = 2147483647LL ;
	if (v < -2147483647LL - 1) v = -2147483647LL - 1 ;
	fprintf (evf, ",\"%s\":%lld", k, v) ;
}
static void ev_str (const char *k, const char *v)
{	fprintf (evf, ",\"%s\":\"", k) ;
	for ( ; *v ; v++)
	{	unsigned char c = (unsigned char) *v ;
		if (c == '"' || c == '\\') fprintf (evf, "\\%c", c) ;
		else if (c < 32 || c > 126) fprintf (evf, "?") ;
		else fputc (c, evf) ;
		}
	fputc ('"', evf) ;
}
/* fault bookkeeping visible to the validator : fe = number of callbacks whose answer a fault has changed so far, fa = a fault can still
** fire, fk = its kind (only while a schedule is or was armed in this scenario) */
static long long fault_eff ; static int fault_kind ; static int fault_armed (void) ;
static void ev_end (void)
{	if (fault_kind != 0) fprintf (evf, ",\"fe\":%lld,\"fa\":%d,\"fk\":%d", fault_eff, fault_armed (), fault_kind) ;
	fputs ("}\n", evf) ;
	ev_open = 0 ;
}
static void ev_bytes (const char *k, const unsigned char *p, long long n)
{	fprintf (evf, ",\"%s\":[", k) ;
	for (long long i = 0 ; i < n ; i++) fprintf (evf, i ? ",%d" : "%d", p [i]) ;
	fputc (']', evf) ;
}

static void die_flush (void)
{	if (evf)
	{	if (ev_open) fputc ('\n', evf) ;	/* leave the unfinished line to itself : the tools drop it */
		fprintf (evf, "{\"s\":%d,\"i\":%d,\"h\":%d,\"op\":\"crash\",\"during\":\"%s\"}\n", scn_id, seqno, cur_h, cur_call) ;
		fflush (evf) ;
		}
}
static void on_alarm (int sig)
{	(void) sig ;
	if (evf)
	{	if (ev_open) fputc ('\n', evf) ;
		fprintf (evf, "{\"s\":%d,\"i\":%d,\"h\":%d,\"op\":\"timeout\",\"during\":\"%s\"}\n", scn_id, seqno, cur_h, cur_call) ;
		fflush (evf) ;
		}
	_exit (3) ;
}
static void on_crash (int sig)
{	(void) sig ;
	die_flush () ;
	_exit (4) ;
}

/* ---- in-memory files and virtual I/O with fault schedule ---- */
#define MAXFILES 64
typedef struct
{	unsigned char *data ;
	long long len, cap ;
	int used ;
} MEMFILE ;
static MEMFILE files [MAXFILES] ;
static long long file_do [MAXFILES], file_dl [MAXFILES] ;	/* data offset / length seen by the last successful open of the file */

typedef struct
{	MEMFILE *mf ;
	long long pos ;
} VIOCTX ;

/* fault schedule : callback number (1-based, counted from arming) at which the fault starts */
static long long io_count = 0 ;
static long long fault_at = 0 ;	/* 0 = none */
/* fault_kind (declared above) : 1 zero, 2 short, 3 seekfail, 4 lenbig, 5 lensmall */
static int fault_sticky = 0 ;
static long long fault_hits = 0 ;

static int fault_armed (void) { return fault_at != 0 && (fault_sticky || io_count < fault_at) ; }
static int faulting (void)
{	io_count++ ;
	if (fault_at == 0) return 0 ;
	if (fault_sticky ? (io_count >= fault_at) : (io_count == fault_at)) { fault_hits++ ; return 1 ; }
	return 0 ;
}

static void mf_reserve (MEMFILE *mf, long long n)
{	if (n <= mf->cap) return ;
	long long nc = mf->cap ? mf->cap : 4096 ;
	while (nc < n) nc *= 2 ;
	mf->data = drealloc (mf->data, nc) ;
	memset (mf->data + mf->cap, 0, nc - mf->cap) ;
	mf->cap = nc ;
}

static sf_count_t v_len (void *u)
{	VIOCTX *c = u ; int f = faulting () ;
	if (f && fault_kind == 4) { fault_eff++ ; return c->mf->len + 1000 ; }
	if (f && fault_kind == 5) { fault_eff++ ; return c->mf->len / 2 ; }
	return c->mf->len ;
}
static sf_count_t v_seek (sf_count_t off, int wh, void *u)
{	VIOCTX *c = u ; int f = faulting () ;
	if (f && fault_kind == 3) { fault_eff++ ; return -1 ; }
	long long np = wh == SEEK_SET ? off : wh == SEEK_CUR ? c->pos + off : c->mf->len + off ;
	if (np < 0) return -1 ;
	c->pos = np ;
	return np ;
}
static sf_count_t v_read (void *p, sf_count_t n, void *u)
{	VIOCTX *c = u ; int f = faulting () ;
	if (f && fault_kind == 1) { fault_eff++ ; return 0 ; }
	long long av = c->mf->len - c->pos ;
	if (av < 0) av = 0 ;
	if (n > av) n = av ;
	if (f && fault_kind == 2 && n > 1) { fault_eff++ ; n = n / 2 ; }
	if (n > 0) memcpy (p, c->mf->data + c->pos, n) ;
	c->pos += n ;
	return n ;
}
static sf_count_t v_write (const void *p, sf_count_t n, void *u)
{	VIOCTX *c = u ; int f = faulting () ;
	if (f && fault_kind == 1) { fault_eff++ ; return 0 ; }
	if (f && fault_kind == 2 && n > 1) { fault_eff++ ; n = n / 2 ; }
	if (n <= 0) return 0 ;
	mf_reserve (c->mf, c->pos + n) ;
	memcpy (c->mf->data + c->pos, p, n) ;
	c->pos += n ;
	if (c->pos > c->mf->len) c->mf->len = c->pos ;
	return n ;
}
static sf_count_t v_tell (void *u)
{	VIOCTX *c = u ; faulting () ;
	return c->pos ;
}
static SF_VIRTUAL_IO vio = { v_len, v_seek, v_read, v_write, v_tell } ;

static void digest4 (const unsigned char *p, long long n, int out [4])
{	uint64_t h = 1469598103934665603ULL ;
	for (long long i = 0 ; i < n ; i++) { h ^= p [i] ; h *= 1099511628211ULL ; }
	for (int k = 0 ; k < 4 ; k++) out [k] = (int) ((h >> (16 * k)) & 0xFFFF) ;
}

/* ---- handles ---- */
#define MAXH 16
enum { R_VIO, R_FD, R_FDK, R_PATH, R_EMB, R_PIPE } ;
typedef struct
{	SNDFILE *sf ;
	SF_INFO info ;
	int route, mode, fid ;
	VIOCTX vc ;
	int fd, dupfd ;
	long long emb_off, emb_tail ;
	char path [300] ;
	pthread_t th ; int th_on ; int pfd [2] ;
	int ch ;
} HND ;
static HND hnd [MAXH] ;
static char tmpdir [256] ;

static int count_fds (void)
{	int n = 0 ; DIR *d = opendir ("/proc/self/fd") ; struct dirent *e ;
	if (!d) return -1 ;
	while ((e = readdir (d))) if (e->d_name [0] != '.') n++ ;
	closedir (d) ;
	return n - 1 ;	/* minus the DIR's own descriptor */
}
static int count_tmp (void)
{	int n = 0 ; DIR *d = opendir (tmpdir) ; struct dirent *e ;
	if (!d) return -1 ;
	while ((e = readdir (d))) if (e->d_name [0] != '.') n++ ;
	closedir (d) ;
	return n ;
}

static long long base_heap = 0 ; static int base_fds = 0, base_tmp = 0 ;

static void ev_state (int h)
{	SF_VERIF_STATE st ;
	if (h < 0 || h >= MAXH || hnd [h].sf == NULL) return ;
	if (sf_verif_snapshot (hnd [h].sf, &st) != 0) return ;
	fprintf (evf, ",\"st\":{\"rp\":%lld,\"wp\":%lld,\"fr\":%lld,\"lo\":%lld,\"hw\":%lld,\"er\":%lld,\"md\":%lld"
		",\"wu\":%lld,\"wc\":%lld,\"ru\":%lld,\"rc\":%lld,\"ah\":%lld,\"nf\":%lld,\"nd\":%lld,\"cl\":%lld,\"sfi\":%lld,\"sif\":%lld"
		",\"sk\":%lld,\"hi\":%lld,\"hl\":%lld,\"bw\":%lld,\"byw\":%lld,\"do\":%lld,\"pipe\":%lld}",
		st.read_current > 2147483647LL ? 2147483647LL : st.read_current,
		st.write_current > 2147483647LL ? 2147483647LL : st.write_current,
		st.frames > 2147483647LL ? 2147483647LL : st.frames, st.last_op, st.have_written, st.error, st.mode,
		st.wch_used, st.wch_count, st.rch_used, st.rch_count, st.auto_header, st.norm_float, st.norm_double,
		st.add_clipping, st.float_int_mult, st.scale_int_float, st.seekable, st.header_indx, st.header_len,
		st.blockwidth, st.bytewidth, st.dataoffset > 2147483647LL ? 2147483647LL : st.dataoffset, st.is_pipe) ;
}
static void ev_err (int h)
{	if (h >= 0 && h < MAXH && hnd [h].sf) ev_int ("err", sf_error (hnd [h].sf)) ;
}
static void ev_flen (int h)
{	if (h >= 0 && h < MAXH && hnd [h].sf && hnd [h].route == R_VIO) ev_int ("flen", files [hnd [h].fid].len) ;
}
static void ev_ledger (void)
{	fprintf (evf, ",\"led\":{\"a\":%lld,\"fd\":%d,\"tmp\":%d}", heap_now () - base_heap, count_fds () - base_fds, count_tmp () - base_tmp) ;
}

/* ---- tokens ---- */
static char *toks [1 << 20] ; static int ntok ;
static void split (char *line)
{	ntok = 0 ;
	for (char *p = strtok (line, " \t\r\n") ; p && ntok < (1 << 20) ; p = strtok (NULL, " \t\r\n")) toks [ntok++] = p ;
}
static long long tokll (int i) { return i < ntok ? strtoll (toks [i], NULL, 0) : 0 ; }

/* ---- sample values ---- */
static uint64_t rng_s ;
static uint64_t rng (void) { rng_s ^= rng_s << 13 ; rng_s ^= rng_s >> 7 ; rng_s ^= rng_s << 17 ; return rng_s ; }

static int tsize (int T) { return T == 's' ? 2 : T == 'i' ? 4 : T == 'f' ? 4 : 8 ; }

/* fill item i of buffer (type T) from a 64-bit raw pattern appropriate to the class */
static void put_item (void *buf, int T, long long i, int64_t v, double fv)
{	switch (T)
	{	case 's' : ((short *) buf) [i] = (short) v ; break ;
		case 'i' : ((int *) buf) [i] = (int) v ; break ;
		case 'f' : ((float *) buf) [i] = (float) fv ; break ;
		default : ((double *) buf) [i] = fv ; break ;
		}
}
/* value generator classes : zeros ramp ext noise lbz<k> tok<base> grid<k> */
/* values are a function of (class, seed, absolute item index off + i) so that any partition of a sequence yields the same samples */
static void gen_values (void *buf, int T, long long n, const char *cls, long long seed, long long param, long long off)
{	rng_s = 0x9E3779B97F4A7C15ULL ^ (uint64_t) (seed * 2654435761LL + 12345) ; rng () ; rng () ;
	int bits = T == 's' ? 16 : 32 ;
	for (long long k = 0 ; k < off ; k++) rng () ;
	for (long long j = 0 ; j < n ; j++)
	{	int64_t v = 0 ; double fv = 0.0 ; long long i = off + j ;
		if (!strcmp (cls, "zeros")) { v = 0 ; fv = 0.0 ; }
		else if (!strcmp (cls, "ramp")) { v = (seed * 7 + i * 3) ; if (bits == 16) v = (short) v ; else v = (int) (v * 65537) ; fv = ((double) ((i * 37 + seed) % 2048) - 1024.0) / 1024.0 ; }
		else if (!strcmp (cls, "ext"))
		{	int64_t mx = bits == 16 ? 32767 : 2147483647LL ;
			v = (i & 1) ? -mx - 1 : mx ; fv = (i & 1) ? -1.0 : (T == 'f' ? (double) 0x7FFFFF / 0x800000 : 1.0 - 1.0 / 9007199254740992.0) ;
			}
		else if (!strcmp (cls, "noise"))
		{	uint64_t r = rng () ;
			v = bits == 16 ? (short) (r >> 20) : (int) (r >> 16) ;
			/* floats : full-mantissa values in (-1,1) */
			if (T == 'f') fv = (double) ((int) ((r >> 16) & 0xFFFFFF) - 0x800000) / 0x800000 ;
			else fv = (double) ((int64_t) ((r >> 8) & 0x1FFFFFFFFFFFFFLL) - 0x10000000000000LL) / 0x10000000000000LL ;
			}
		else if (!strcmp (cls, "lbz"))
		{	/* noise with the low 'param' bits zero (lossless through narrower PCM) */
			uint64_t r = rng () ;
			v = bits == 16 ? (short) (r >> 20) : (int) (r >> 16) ;
			v = (v >> param) * ((int64_t) 1 << param) ;
			fv = (double) v / (bits == 16 ? 32768.0 : 2147483648.0) ;
			}
		else if (!strcmp (cls, "tok"))
		{	/* distinct small tokens placed in the top bits : param = shift */
			v = ((seed + i) % 120 + 1) ; v = v * ((int64_t) 1 << param) ; if (bits == 16) v = (short) v ; else v = (int) v ;
			fv = (double) ((seed + i) % 120 + 1) / 128.0 ;
			}
		else if (!strcmp (cls, "steps"))
		{	/* full scale steps in every direction (extreme deltas for the delta coders) ; low 'param' bits zero */
			static const int t16 [14] = { 32767, 0, -32768, 1, -32767, 32766, -1, 32767, -32768, 0, 16384, -16384, -32768, 32767 } ;
			int64_t b = t16 [(i + seed) % 14] ;
			v = bits == 16 ? b : b * 65536 + (b > 0 ? 65535 : 0) ;
			v = (v >> param) * ((int64_t) 1 << param) ;
			fv = (double) b / 32768.0 ;
			}
		else if (!strcmp (cls, "grid"))
		{	/* dyadic grid k/1024 in [-1,1] (exact maxima in TLC) */
			uint64_t r = rng () ; int k = (int) (r >> 33) % 2049 - 1024 ;
			fv = k / 1024.0 ; v = bits == 16 ? (short) (k * 31) : (int) (k * 2097151) ;
			}
		else { fprintf (stderr, "sfdrive: unknown value class %s\n", cls) ; exit (2) ; }
		put_item (buf, T, j, v, fv) ;
		}
}
/* explicit values : s/i decimal ; f decimal int32 bit pattern ; d "hi:lo" */
static void parse_values (void *buf, int T, long long n, int t0)
{	for (long long i = 0 ; i < n ; i++)
	{	const char *t = (t0 + i < ntok) ? toks [t0 + i] : "0" ;
		switch (T)
		{	case 's' : ((short *) buf) [i] = (short) strtoll (t, NULL, 0) ; break ;
			case 'i' : ((int *) buf) [i] = (int) strtoll (t, NULL, 0) ; break ;
			case 'f' : { int32_t b = (int32_t) strtoll (t, NULL, 0) ; memcpy ((float *) buf + i, &b, 4) ; } break ;
			default :
			{	int32_t hi = (int32_t) strtoll (t, NULL, 0) ; const char *c = strchr (t, ':') ;
				uint32_t lo = c ? (uint32_t) strtoll (c + 1, NULL, 0) : 0 ;
				uint64_t b = ((uint64_t) (uint32_t) hi << 32) | lo ; memcpy ((double *) buf + i, &b, 8) ;
				} break ;
			}
		}
}
static int fmode = 0 ;	/* 0 : floats as bit patterns ; 1 : floats as dyadic [m,e] */
static int nodata = 0 ;	/* scenario option : do not log sample values (hostile input : only counts and positions are judged) */
static void ev_values (const char *k, const void *buf, int T, long long n)
{	fprintf (evf, ",\"%s\":[", k) ;
	for (long long i = 0 ; i < n ; i++)
	{	if (i) fputc (',', evf) ;
		switch (T)
		{	case 's' : fprintf (evf, "%d", ((const short *) buf) [i]) ; break ;
			case 'i' : fprintf (evf, "%d", ((const int *) buf) [i]) ; break ;
			case 'r' : fprintf (evf, "%d", ((const unsigned char *) buf) [i]) ; break ;
			case 'f' :
				if (fmode == 0) { int32_t b ; memcpy (&b, (const float *) buf + i, 4) ; fprintf (evf, "%d", b) ; }
				else
				{	float x = ((const float *) buf) [i] ; int e ;
					if (!isfinite (x)) { fprintf (evf, "[0,9999]") ; break ; }
					double m = frexp ((double) x, &e) ;	/* x = m * 2^e, |m| in [0.5,1) ; 24 bit mantissa */
					long long mi = (long long) ldexp (m, 24) ; e -= 24 ;
					while (mi != 0 && (mi & 1) == 0) { mi >>= 1 ; e++ ; }
					if (mi == 0) e = 0 ;
					fprintf (evf, "[%lld,%d]", mi, e) ;
					}
				break ;
			default :
				if (fmode == 0)
				{	uint64_t b ; memcpy (&b, (const double *) buf + i, 8) ;
					fprintf (evf, "[%d,%d]", (int32_t) (b >> 32), (int32_t) (b & 0xFFFFFFFFu)) ;
					}
				else
				{	double x = ((const double *) buf) [i] ; int e ;
					if (!isfinite (x)) { fprintf (evf, "[0,9999]") ; break ; }
					double m = frexp (x, &e) ;
					long long mi = (long long) ldexp (m, 53) ; e -= 53 ;
					while (mi != 0 && (mi & 1) == 0) { mi >>= 1 ; e++ ; }
					if (mi == 0) e = 0 ;
					/* mantissas wider than 31 bits are split : [hi, lo(30 bits), e] */
					if (mi > 1073741823LL || mi < -1073741823LL)
					{	long long s = mi < 0 ? -1 : 1, a = mi < 0 ? -mi : mi ;
						fprintf (evf, "[%lld,%lld,%d]", s * (a >> 30), s * (a & 0x3FFFFFFF), e) ;
						}
					else fprintf (evf, "[%lld,%d]", mi, e) ;
					}
				break ;
			}
		}
	fputc (']', evf) ;
}

/* ---- guard-banded buffers ---- */
#define GUARD 256
typedef struct { unsigned char *base ; void *ptr ; long long bytes ; } GBUF ;
static GBUF gb_alloc (long long bytes)
{	GBUF g ; if (bytes < 0) bytes = 0 ;
	g.base = dmalloc (bytes + 2 * GUARD) ; g.ptr = g.base + GUARD ; g.bytes = bytes ;
	memset (g.base, 0xA5, bytes + 2 * GUARD) ;
	return g ;
}
static int gb_guard_ok (GBUF *g)
{	for (int i = 0 ; i < GUARD ; i++)
		if (g->base [i] != 0xA5 || g->base [GUARD + g->bytes + i] != 0xA5) return 0 ;
	return 1 ;
}
/* first and last touched byte (-1 if none) */
static void gb_touch (GBUF *g, long long *lo, long long *hi)
{	unsigned char *p = g->ptr ; *lo = -1 ; *hi = -1 ;
	for (long long i = 0 ; i < g->bytes ; i++) if (p [i] != 0xA5) { if (*lo < 0) *lo = i ; *hi = i ; }
}

/* ---- pipe helper threads ---- */
typedef struct { int fd ; MEMFILE *mf ; } PIPEARG ;
static void *pipe_feeder (void *a)
{	PIPEARG *pa = a ; long long off = 0 ;
	while (off < pa->mf->len)
	{	ssize_t w = write (pa->fd, pa->mf->data + off, (size_t) ((pa->mf->len - off) > 4096 ? 4096 : (pa->mf->len - off))) ;
		if (w <= 0) break ;
		off += w ;
		}
	close (pa->fd) ; free (pa) ;
	return NULL ;
}
static void *pipe_collector (void *a)
{	PIPEARG *pa = a ; unsigned char b [4096] ; ssize_t r ;
	pa->mf->len = 0 ;
	while ((r = read (pa->fd, b, sizeof (b))) > 0)
	{	/* plain malloc'ed growth outside ledger accounting window (thread) */
		if (pa->mf->len + r > pa->mf->cap)
		{	long long nc = pa->mf->cap ? pa->mf->cap * 2 : 65536 ; while (nc < pa->mf->len + r) nc *= 2 ;
			unsigned char *nd = malloc (nc + 16) ; ((size_t *) nd) [0] = nc ; nd += 16 ;
			if (pa->mf->data) { memcpy (nd, pa->mf->data, pa->mf->len) ; }
			/* old block intentionally handed to dfree by owner later : keep simple, leak-free via accounting */
			if (pa->mf->data) { drv_bytes -= (long long) ((size_t *) (pa->mf->data - 16)) [0] + 16 ; free (pa->mf->data - 16) ; }
			drv_bytes += nc + 16 ;
			pa->mf->data = nd ; pa->mf->cap = nc ;
			}
		memcpy (pa->mf->data + pa->mf->len, b, r) ; pa->mf->len += r ;
		}
	close (pa->fd) ; free (pa) ;
	return NULL ;
}

/* ---- command table ---- */
typedef struct { const char *name ; int id ; } CMDNAME ;
#define C(x) { #x, SFC_##x }
static CMDNAME cmdnames [] = {
	C(GET_LIB_VERSION), C(GET_LOG_INFO), C(GET_CURRENT_SF_INFO), C(GET_NORM_DOUBLE), C(GET_NORM_FLOAT), C(SET_NORM_DOUBLE), C(SET_NORM_FLOAT),
	C(SET_SCALE_FLOAT_INT_READ), C(SET_SCALE_INT_FLOAT_WRITE), C(GET_SIMPLE_FORMAT_COUNT), C(GET_SIMPLE_FORMAT), C(GET_FORMAT_INFO),
	C(GET_FORMAT_MAJOR_COUNT), C(GET_FORMAT_MAJOR), C(GET_FORMAT_SUBTYPE_COUNT), C(GET_FORMAT_SUBTYPE), C(CALC_SIGNAL_MAX), C(CALC_NORM_SIGNAL_MAX),
	C(CALC_MAX_ALL_CHANNELS), C(CALC_NORM_MAX_ALL_CHANNELS), C(GET_SIGNAL_MAX), C(GET_MAX_ALL_CHANNELS), C(SET_ADD_PEAK_CHUNK),
	C(UPDATE_HEADER_NOW), C(SET_UPDATE_HEADER_AUTO), C(FILE_TRUNCATE), C(SET_RAW_START_OFFSET), C(SET_DITHER_ON_WRITE), C(SET_DITHER_ON_READ),
	C(GET_DITHER_INFO_COUNT), C(GET_DITHER_INFO), C(GET_EMBED_FILE_INFO), C(SET_CLIPPING), C(GET_CLIPPING), C(GET_CUE_COUNT), C(GET_CUE), C(SET_CUE),
	C(GET_INSTRUMENT), C(SET_INSTRUMENT), C(GET_LOOP_INFO), C(GET_BROADCAST_INFO), C(SET_BROADCAST_INFO), C(GET_CHANNEL_MAP_INFO), C(SET_CHANNEL_MAP_INFO),
	C(RAW_DATA_NEEDS_ENDSWAP), C(WAVEX_SET_AMBISONIC), C(WAVEX_GET_AMBISONIC), C(RF64_AUTO_DOWNGRADE), C(SET_VBR_ENCODING_QUALITY), C(SET_COMPRESSION_LEVEL),
	C(SET_CART_INFO), C(GET_CART_INFO), C(SET_ORIGINAL_SAMPLERATE), C(GET_ORIGINAL_SAMPLERATE), C(SET_BITRATE_MODE), C(GET_BITRATE_MODE),
	C(TEST_IEEE_FLOAT_REPLACE), C(SET_OGG_PAGE_LATENCY_MS), C(SET_OGG_PAGE_LATENCY), C(GET_OGG_STREAM_SERIALNO),
	{ NULL, 0 } } ;
static int cmd_id (const char *s)
{	for (int i = 0 ; cmdnames [i].name ; i++) if (!strcmp (cmdnames [i].name, s)) return cmdnames [i].id ;
	return (int) strtoll (s, NULL, 0) ;
}

static int alarm_secs = 20 ;

static int emb_notail = 0, emb_wtrail = 0 ;
static int parse_route (const char *r, long long *emb)
{	*emb = 0 ;
	if (!strcmp (r, "vio")) return R_VIO ;
	if (!strcmp (r, "fd")) return R_FD ;
	if (!strcmp (r, "fdk")) return R_FDK ;
	if (!strcmp (r, "path")) return R_PATH ;
	if (!strcmp (r, "pipe")) return R_PIPE ;
	emb_notail = 0 ; emb_wtrail = 0 ;
	if (!strncmp (r, "embw", 4)) { *emb = strtoll (r + 4, NULL, 0) ; emb_wtrail = 1 ; return R_EMB ; }	/* write : descriptor at offset k of a file that has more bytes after it */
	if (!strncmp (r, "embz", 4)) { *emb = strtoll (r + 4, NULL, 0) ; emb_notail = 1 ; return R_EMB ; }	/* embedded file is the last thing in the container */
	if (!strncmp (r, "emb", 3)) { *emb = strtoll (r + 3, NULL, 0) ; return R_EMB ; }
	fprintf (stderr, "sfdrive: bad route %s\n", r) ; exit (2) ;
}

static void write_all (int fd, const unsigned char *p, long long n)
{	while (n > 0) { ssize_t w = write (fd, p, (size_t) n) ; if (w <= 0) break ; p += w ; n -= w ; }
}
static void slurp_fd (int fd, MEMFILE *mf, long long skip, long long tail)
{	struct stat sb ; if (fstat (fd, &sb) != 0) return ;
	long long n = sb.st_size - skip - tail ; if (n < 0) n = 0 ;
	mf_reserve (mf, n + 1) ;
	long long off = 0 ;
	while (off < n) { ssize_t r = pread (fd, mf->data + off, (size_t) (n - off), skip + off) ; if (r <= 0) break ; off += r ; }
	mf->len = off ;
}

static void ev_info (const SF_INFO *in)
{	ev_int ("fr", in->frames) ; ev_int ("rate", in->samplerate) ; ev_int ("ch", in->channels) ;
	ev_int ("fmt", in->format) ; ev_int ("sec", in->sections) ; ev_int ("skb", in->seekable) ;
	/* frames above 2^31-1 cannot be carried in a TLC integer : flag them */
	ev_int ("frbig", in->frames > 2147483647LL ? 1 : 0) ; ev_int ("frneg", in->frames < 0 ? 1 : 0) ;
}

/* files of the path route stay on disk for the whole scenario (SD2 keeps its resource fork next to the data file) */
static void path_name (int fid, char *out, size_t n, const char *prefix)
{	snprintf (out, n, "%s/../%ssfd_%d_%d.dat", tmpdir, prefix, (int) getpid (), fid) ;
}
static void path_remove (int fid)
{	char p [300] ;
	path_name (fid, p, sizeof (p), "") ; unlink (p) ;
	path_name (fid, p, sizeof (p), "._") ; unlink (p) ;
}

static void do_open (void)
{	/* open h route mode fid fmt ch rate [frames] */
	int h = (int) tokll (1) ; long long emb ; int route = parse_route (toks [2], &emb) ;
	const char *ms = toks [3] ; int mode = !strcmp (ms, "r") ? SFM_READ : !strcmp (ms, "w") ? SFM_WRITE : SFM_RDWR ;
	int fid = (int) tokll (4) ;
	HND *H = &hnd [h] ; memset (H, 0, sizeof (*H)) ;
	H->route = route ; H->mode = mode ; H->fid = fid ; H->fd = -1 ; H->dupfd = -1 ;
	H->info.format = (int) tokll (5) ; H->info.channels = (int) tokll (6) ; H->info.samplerate = (int) tokll (7) ;
	H->info.frames = ntok > 8 ? tokll (8) : 0 ;
	SF_INFO asked = H->info ;
	MEMFILE *mf = &files [fid] ; mf->used = 1 ;
	cur_call = "open" ; cur_h = h ;
	int fds_before = count_fds () ; long long heap_before = heap_now () ;
	alarm (alarm_secs) ;
	switch (route)
	{	case R_VIO :
			H->vc.mf = mf ; H->vc.pos = 0 ;
			H->sf = sf_open_virtual (&vio, mode, &H->info, &H->vc) ;
			break ;
		case R_FD : case R_FDK : case R_EMB :
		{	int fd = memfd_create ("sfd", 0) ;
			H->emb_off = route == R_EMB ? emb : 0 ; H->emb_tail = (route == R_EMB && !emb_notail) ? 37 : 0 ;
			for (long long i = 0 ; i < H->emb_off ; i++) { unsigned char j = (unsigned char) (i * 31 + 7) ; write_all (fd, &j, 1) ; }
			if (mode != SFM_WRITE) write_all (fd, mf->data, mf->len) ;
			if (mode == SFM_READ) for (long long i = 0 ; i < H->emb_tail ; i++) { unsigned char j = (unsigned char) (i * 17 + 3) ; write_all (fd, &j, 1) ; }
			else H->emb_tail = 0 ;
			if (route == R_EMB && emb_wtrail && mode == SFM_WRITE)
			{	/* 100 more bytes behind the descriptor position : the library appends at the end of the container */
				for (int i = 0 ; i < 100 ; i++) { unsigned char j = (unsigned char) (i * 13 + 5) ; write_all (fd, &j, 1) ; }
				lseek (fd, H->emb_off, SEEK_SET) ;
				H->emb_off += 100 ;
				}
			else
				lseek (fd, H->emb_off, SEEK_SET) ;
			H->fd = fd ; H->dupfd = dup (fd) ;
			fds_before = count_fds () ;
			H->sf = sf_open_fd (fd, mode, &H->info, route == R_FDK ? 0 : 1) ;
			} break ;
		case R_PATH :
		{	snprintf (H->path, sizeof (H->path), "%s/../sfd_%d_%d.dat", tmpdir, (int) getpid (), fid) ;
			if (mode == SFM_WRITE) path_remove (fid) ;
			else if (access (H->path, F_OK) != 0) { int fd = open (H->path, O_CREAT | O_TRUNC | O_WRONLY, 0600) ; write_all (fd, mf->data, mf->len) ; close (fd) ; }
			H->sf = sf_open (H->path, mode, &H->info) ;
			} break ;
		case R_PIPE :
		{	if (pipe (H->pfd) != 0) { perror ("pipe") ; exit (2) ; }
			PIPEARG *pa = malloc (sizeof (PIPEARG)) ; pa->mf = mf ;
			if (mode == SFM_READ)
			{	pa->fd = H->pfd [1] ; pthread_create (&H->th, NULL, pipe_feeder, pa) ; H->th_on = 1 ;
				H->fd = H->pfd [0] ;
				}
			else
			{	pa->fd = H->pfd [0] ; pthread_create (&H->th, NULL, pipe_collector, pa) ; H->th_on = 1 ;
				H->fd = H->pfd [1] ;
				}
			fds_before = count_fds () ;
			H->sf = sf_open_fd (H->fd, mode, &H->info, 1) ;
			} break ;
		}
	alarm (0) ;
	H->ch = H->info.channels ;
	ev_begin ("open", h) ;
	ev_str ("route", toks [2]) ; ev_str ("mode", ms) ; ev_int ("fid", fid) ;
	ev_int ("afmt", asked.format) ; ev_int ("ach", asked.channels) ; ev_int ("arate", asked.samplerate) ; ev_int ("afr", asked.frames) ;
	ev_int ("ok", H->sf != NULL) ;
	ev_int ("gerr", sf_error (NULL)) ;
	{	const char *m = sf_strerror (NULL) ; ev_int ("gmsg", m ? (int) strlen (m) : -1) ; }
	if (H->sf)
	{	SF_VERIF_STATE vs ;
		if (sf_verif_snapshot (H->sf, &vs) == 0) { file_do [fid] = vs.dataoffset ; file_dl [fid] = vs.datalength ; }
		ev_info (&H->info) ; ev_err (h) ; ev_state (h) ;
		}
	else
	{	/* what was offered : length of the input (known findings about tiny files are keyed by it) */
		if (mode != SFM_WRITE)
		{	long long il = mf->len ;
			if (route == R_PATH) { struct stat sb ; if (stat (H->path, &sb) == 0) il = (long long) sb.st_size ; }
			ev_int ("flen", il) ;
			}
		/* a failed open must leave nothing behind */
		/* pipe route first : stop the helper thread (it owns a small heap block and the other end of the pipe) */
		if (H->th_on)
		{	if (route == R_PIPE && mode == SFM_READ)
			{	unsigned char b [4096] ; int f2 = H->pfd [0] ;
				if (fcntl (f2, F_GETFD) != -1) { while (read (f2, b, sizeof (b)) > 0) { } close (f2) ; }
				}
			else if (route == R_PIPE && fcntl (H->fd, F_GETFD) != -1) close (H->fd) ;
			pthread_join (H->th, NULL) ; H->th_on = 0 ;
			}
		int fdl = count_fds () - fds_before ;
		if (route == R_FD || route == R_EMB)
		{	/* close_desc true : the library may or may not have closed the descriptor on failure */
			if (fcntl (H->fd, F_GETFD) != -1) { close (H->fd) ; } else fdl += 1 ;
			}
		/* (pipe route : both ends are gone by now, descriptor accounting is not meaningful here) */
		ev_int ("fdleak", route == R_PIPE ? 0 : fdl) ; ev_int ("heapleak", heap_now () - heap_before) ;
		if (route == R_FDK && H->fd >= 0) close (H->fd) ;
		if (H->dupfd >= 0) { close (H->dupfd) ; H->dupfd = -1 ; }
		}
	ev_flen (h) ;
	ev_end () ;
}

static void iters_reset (void) ;

static void do_close (void)
{	int h = (int) tokll (1) ; HND *H = &hnd [h] ;
	iters_reset () ;	/* an iterator must not be used after its handle is closed */
	if (!H->sf) return ;	/* the script closes a handle whose open failed : nothing to do, nothing to report */
	cur_call = "close" ; cur_h = h ;
	alarm (alarm_secs) ;
	int ret = sf_close (H->sf) ;
	alarm (0) ;
	H->sf = NULL ;
	MEMFILE *mf = &files [H->fid] ;
	int fdclosed = -1 ;
	if (H->route == R_FD || H->route == R_FDK || H->route == R_EMB)
	{	fdclosed = (fcntl (H->fd, F_GETFD) == -1) ;
		if (H->mode != SFM_READ) slurp_fd (H->dupfd, mf, H->emb_off, 0) ;
		if (!fdclosed) close (H->fd) ;
		close (H->dupfd) ;
		}
	else if (H->route == R_PATH)
	{	if (H->mode != SFM_READ) { int fd = open (H->path, O_RDONLY) ; if (fd >= 0) { slurp_fd (fd, mf, 0, 0) ; close (fd) ; } }
		}
	else if (H->route == R_PIPE)
	{	fdclosed = (fcntl (H->fd, F_GETFD) == -1) ;
		if (!fdclosed) close (H->fd) ;
		if (H->mode == SFM_READ)
		{	/* the feeder may still be blocked on a full pipe if the library did not drain it */
			}
		if (H->th_on) { pthread_join (H->th, NULL) ; H->th_on = 0 ; }
		}
	ev_begin ("close", h) ; ev_int ("ret", ret) ; ev_int ("fdclosed", fdclosed) ;
	ev_int ("closedesc", H->route == R_FDK ? 0 : 1) ;
	ev_str ("route", H->route == R_VIO ? "vio" : H->route == R_FD ? "fd" : H->route == R_FDK ? "fdk" : H->route == R_PATH ? "path" : H->route == R_EMB ? "emb" : "pipe") ;
	ev_int ("flen", mf->len) ;
	{	int d [4] ; digest4 (mf->data, mf->len, d) ;
		if (H->route == R_PATH && H->mode != SFM_READ)
		{	/* a resource fork next to the file (SD2) is part of what was written : folded into the digest, the 32 bytes
			** that hold the file's own name left out */
			char rp [300] ; path_name (H->fid, rp, sizeof (rp), "._") ;
			int rfd = open (rp, O_RDONLY) ;
			if (rfd >= 0)
			{	MEMFILE rf ; memset (&rf, 0, sizeof (rf)) ; slurp_fd (rfd, &rf, 0, 0) ; close (rfd) ;
				for (long long k = 0x30 ; k < 0x50 && k < rf.len ; k++) rf.data [k] = 0 ;
				int r [4] ; digest4 (rf.data, rf.len, r) ;
				for (int k = 0 ; k < 4 ; k++) d [k] = (int) (((long long) d [k] * 31 + r [k] + rf.len) % 1000003) ;
				dfree (rf.data) ;
				}
			}
		fprintf (evf, ",\"dig\":[%d,%d,%d,%d]", d [0], d [1], d [2], d [3]) ; }
	ev_ledger () ;
	ev_end () ;
}

static void do_read (void)
{	/* read h T unit n   (T : s i f d raw ; unit : i f) */
	int h = (int) tokll (1) ; HND *H = &hnd [h] ; if (!H->sf) return ;
	int T = toks [2][0] ; int unit = toks [3][0] ; long long n = tokll (4) ;
	int ch = H->ch > 0 ? H->ch : 1 ;
	long long items = T == 'r' ? n : (unit == 'f' ? n * ch : n) ;
	int isz = T == 'r' ? 1 : tsize (T) ;
	GBUF g = gb_alloc (items > 0 ? items * isz : 0) ;
	cur_call = "read" ; cur_h = h ;
	alarm (alarm_secs) ;
	sf_count_t ret = 0 ;
	if (T == 'r') ret = sf_read_raw (H->sf, g.ptr, n) ;
	else if (unit == 'i')
		ret = T == 's' ? sf_read_short (H->sf, g.ptr, n) : T == 'i' ? sf_read_int (H->sf, g.ptr, n) : T == 'f' ? sf_read_float (H->sf, g.ptr, n) : sf_read_double (H->sf, g.ptr, n) ;
	else
		ret = T == 's' ? sf_readf_short (H->sf, g.ptr, n) : T == 'i' ? sf_readf_int (H->sf, g.ptr, n) : T == 'f' ? sf_readf_float (H->sf, g.ptr, n) : sf_readf_double (H->sf, g.ptr, n) ;
	alarm (0) ;
	long long lo, hi ; gb_touch (&g, &lo, &hi) ;
	long long ritems = T == 'r' ? ret : (unit == 'f' ? ret * ch : ret) ;
	ev_begin ("read", h) ; ev_str ("T", toks [2]) ; ev_str ("unit", toks [3]) ; ev_int ("n", n) ; ev_int ("ret", ret) ;
	ev_int ("items", items) ;
	long long shown = ritems ; if (shown > items) shown = items ; if (shown < 0) shown = 0 ;
	ev_int ("outn", shown) ;
	if (!nodata) ev_values ("out", g.ptr, T, shown) ;
	/* tail of the requested region : all zero ? untouched ? */
	int tz = 1, tu = 1 ; unsigned char *p = g.ptr ;
	for (long long i = shown * isz ; i < g.bytes ; i++) { if (p [i] != 0) tz = 0 ; if (p [i] != 0xA5) tu = 0 ; }
	ev_int ("tz", tz) ; ev_int ("tu", tu) ;
	ev_int ("guard", gb_guard_ok (&g)) ; ev_int ("tlo", lo) ; ev_int ("thi", hi) ; ev_int ("bytes", g.bytes) ;
	ev_err (h) ; ev_state (h) ; ev_flen (h) ; ev_int ("io", io_count) ;
	ev_end () ;
	dfree (g.base) ;
}

static void do_write (void)
{	/* write h T unit n (gen cls seed param | v...) */
	int h = (int) tokll (1) ; HND *H = &hnd [h] ; if (!H->sf) return ;
	int T = toks [2][0] ; int unit = toks [3][0] ; long long n = tokll (4) ;
	int ch = H->ch > 0 ? H->ch : 1 ;
	long long items = T == 'r' ? n : (unit == 'f' ? n * ch : n) ;
	int isz = T == 'r' ? 1 : tsize (T) ;
	long long alloc_items = items > 0 ? items : 0 ;
	/* exact-size heap block so that ASan sees reads past the supplied region */
	void *buf = malloc (alloc_items * isz + 1) ; drv_bytes += alloc_items * isz + 1 ;
	if (T == 'r') { for (long long i = 0 ; i < alloc_items ; i++) ((unsigned char *) buf) [i] = (unsigned char) (5 + ntok > 5 + i ? tokll (5 + (int) i) : 0) ; }
	else if (ntok > 5 && !strcmp (toks [5], "gen")) gen_values (buf, T, alloc_items, toks [6], tokll (7), tokll (8), ntok > 9 ? tokll (9) : 0) ;
	else parse_values (buf, T, alloc_items, 5) ;
	cur_call = "write" ; cur_h = h ;
	alarm (alarm_secs) ;
	sf_count_t ret = 0 ;
	if (T == 'r') ret = sf_write_raw (H->sf, buf, n) ;
	else if (unit == 'i')
		ret = T == 's' ? sf_write_short (H->sf, buf, n) : T == 'i' ? sf_write_int (H->sf, buf, n) : T == 'f' ? sf_write_float (H->sf, buf, n) : sf_write_double (H->sf, buf, n) ;
	else
		ret = T == 's' ? sf_writef_short (H->sf, buf, n) : T == 'i' ? sf_writef_int (H->sf, buf, n) : T == 'f' ? sf_writef_float (H->sf, buf, n) : sf_writef_double (H->sf, buf, n) ;
	alarm (0) ;
	ev_begin ("write", h) ; ev_str ("T", toks [2]) ; ev_str ("unit", toks [3]) ; ev_int ("n", n) ; ev_int ("ret", ret) ;
	ev_int ("items", items) ;
	if (!nodata) ev_values ("v", buf, T, alloc_items) ; else fprintf (evf, ",\"v\":[]") ;
	ev_err (h) ; ev_state (h) ; ev_flen (h) ; ev_int ("io", io_count) ;
	ev_end () ;
	drv_bytes -= alloc_items * isz + 1 ; free (buf) ;
}

/* digest and length of what a handle's backing store holds right now (virtual I/O store, or the descriptor's file) */
static uint64_t store_digest (HND *H)
{	uint64_t hsh = 1469598103934665603ULL ;
	if (H->route == R_VIO)
	{	MEMFILE *mf = &files [H->fid] ;
		for (long long i = 0 ; i < mf->len ; i++) { hsh ^= mf->data [i] ; hsh *= 1099511628211ULL ; }
		return hsh ^ (uint64_t) mf->len ;
		}
	if ((H->route == R_FD || H->route == R_FDK || H->route == R_EMB) && H->dupfd >= 0)
	{	unsigned char b [4096] ; long long off = 0 ; ssize_t r ;
		while ((r = pread (H->dupfd, b, sizeof (b), off)) > 0) { for (ssize_t i = 0 ; i < r ; i++) { hsh ^= b [i] ; hsh *= 1099511628211ULL ; } off += r ; }
		return hsh ^ (uint64_t) off ;
		}
	return 0 ;
}

static void do_seek (void)
{	int h = (int) tokll (1) ; HND *H = &hnd [h] ; if (!H->sf) return ;
	long long off = tokll (2) ; int wh = (int) tokll (3) ;
	cur_call = "seek" ; cur_h = h ;
	uint64_t d0 = H->mode != SFM_READ ? store_digest (H) : 0 ;
	alarm (alarm_secs) ;
	sf_count_t ret = sf_seek (H->sf, off, wh) ;
	alarm (0) ;
	uint64_t d1 = H->mode != SFM_READ ? store_digest (H) : 0 ;
	ev_begin ("seek", h) ; ev_int ("off", off) ; ev_int ("wh", wh) ; ev_int ("ret", ret) ; ev_int ("sc", d0 != d1) ;	/* sc : the store changed during the call */
	ev_err (h) ; ev_state (h) ; ev_flen (h) ; ev_int ("io", io_count) ;
	ev_end () ;
}

/* snapshot of the backing store of an open vio handle (or any memfile) into another memfile : the crash image */
static void do_file (void)
{	/* file fid new | copy src | hex HEX | load path [off len] | trunc n | setbyte off val */
	int fid = (int) tokll (1) ; MEMFILE *mf = &files [fid] ; mf->used = 1 ;
	const char *k = toks [2] ;
	if (strcmp (k, "save") && strcmp (k, "dump") && strcmp (k, "datadump")) path_remove (fid) ;
	if (!strcmp (k, "new")) mf->len = 0 ;
	else if (!strcmp (k, "copy"))
	{	MEMFILE *src = &files [tokll (3)] ; mf_reserve (mf, src->len + 1) ; if (src->len) memcpy (mf->data, src->data, src->len) ; mf->len = src->len ; }
	else if (!strcmp (k, "hex"))
	{	const char *hx = ntok > 3 ? toks [3] : "" ; if (!strcmp (hx, "-")) hx = "" ;
		long long n = (long long) strlen (hx) / 2 ; mf_reserve (mf, n + 1) ;
		for (long long i = 0 ; i < n ; i++) { unsigned v ; sscanf (hx + 2 * i, "%2x", &v) ; mf->data [i] = (unsigned char) v ; }
		mf->len = n ;
		}
	else if (!strcmp (k, "load"))
	{	FILE *f = fopen (toks [3], "rb") ; if (!f) { fprintf (stderr, "sfdrive: cannot load %s\n", toks [3]) ; exit (2) ; }
		long long off = ntok > 4 ? tokll (4) : 0 ; long long len = ntok > 5 ? tokll (5) : -1 ;
		fseek (f, 0, SEEK_END) ; long long sz = ftell (f) ; if (len < 0 || off + len > sz) len = sz - off ; if (len < 0) len = 0 ;
		fseek (f, off, SEEK_SET) ; mf_reserve (mf, len + 1) ; mf->len = (long long) fread (mf->data, 1, len, f) ; fclose (f) ;
		}
	else if (!strcmp (k, "trunc")) { long long n = tokll (3) ; if (n < mf->len) mf->len = n ; }
	else if (!strcmp (k, "setbyte")) { long long o = tokll (3) ; if (o >= 0 && o < mf->len) mf->data [o] = (unsigned char) tokll (4) ; }
	else if (!strcmp (k, "patch"))
	{	long long o = tokll (3) ; const char *hx = ntok > 4 ? toks [4] : "" ; long long n = (long long) strlen (hx) / 2 ;
		mf_reserve (mf, o + n + 1) ;
		for (long long i = 0 ; i < n ; i++) { unsigned v ; sscanf (hx + 2 * i, "%2x", &v) ; mf->data [o + i] = (unsigned char) v ; }
		if (o + n > mf->len) mf->len = o + n ;
		}
	else if (!strcmp (k, "datapatch"))
	{	/* overwrite the data section with generated bytes : kinds rand, ext (runs of 00 / FF / 88 / 77), hdr (random, extreme block headers) */
		long long seed = tokll (3) ; const char *kind = ntok > 4 ? toks [4] : "rand" ; long long blk = ntok > 5 ? tokll (5) : 0 ;
		long long o = file_do [fid], n = file_dl [fid] ; if (o + n > mf->len) n = mf->len - o ; if (n < 0) n = 0 ;
		rng_s = 0x9E3779B97F4A7C15ULL ^ (uint64_t) (seed * 2654435761LL + 777) ; rng () ; rng () ;
		for (long long i = 0 ; i < n ; i++)
		{	unsigned char v = (unsigned char) (rng () >> 24) ;
			if (!strcmp (kind, "ext")) { static const unsigned char pat [4] = { 0x00, 0xFF, 0x88, 0x77 } ; v = pat [((i / 37) + seed) % 4] ; }
			if (!strcmp (kind, "hdr") && blk > 0 && (i % blk) < 16 && (rng () & 3) == 0) v = (rng () & 1) ? 0xFF : 0x7F ;
			mf->data [o + i] = v ;
			}
		}
	else if (!strcmp (k, "datadump"))
	{	long long o = file_do [fid], n = file_dl [fid] ; if (o + n > mf->len) n = mf->len - o ; if (n < 0) n = 0 ;
		ev_begin ("filedump", -1) ; ev_int ("fid", fid) ; ev_int ("off", o) ; ev_bytes ("bytes", mf->data + o, n) ; ev_end () ;
		return ;
		}
	else if (!strcmp (k, "dump"))
	{	long long o = tokll (3), n = tokll (4) ; if (n < 0 || o + n > mf->len) n = mf->len - o ; if (n < 0) n = 0 ;
		ev_begin ("filedump", -1) ; ev_int ("fid", fid) ; ev_int ("off", o) ; ev_bytes ("bytes", mf->data + o, n) ; ev_end () ;
		return ;
		}
	else if (!strcmp (k, "save"))
	{	FILE *f = fopen (toks [3], "wb") ; if (f) { fwrite (mf->data, 1, mf->len, f) ; fclose (f) ; } return ; }
	ev_begin ("file", -1) ; ev_int ("fid", fid) ; ev_str ("kind", k) ; if (!strcmp (k, "copy")) ev_int ("src", tokll (3)) ;
	ev_int ("flen", mf->len) ;
	{	int d [4] ; digest4 (mf->data, mf->len, d) ; fprintf (evf, ",\"dig\":[%d,%d,%d,%d]", d [0], d [1], d [2], d [3]) ; }
	ev_end () ;
}

static void ev_dbl (const char *k, double x)
{	/* exact dyadic [m,e] when the mantissa fits 31 bits, else bits */
	int e ; if (!isfinite (x)) { fprintf (evf, ",\"%s\":[0,9999]", k) ; return ; }
	double m = frexp (x, &e) ; long long mi = (long long) ldexp (m, 53) ; e -= 53 ;
	while (mi != 0 && (mi & 1) == 0) { mi >>= 1 ; e++ ; }
	if (mi == 0) e = 0 ;
	if (mi > 1073741823LL || mi < -1073741823LL)
	{	long long s = mi < 0 ? -1 : 1, a = mi < 0 ? -mi : mi ;
		fprintf (evf, ",\"%s\":[%lld,%lld,%d]", k, s * (a >> 30), s * (a & 0x3FFFFFFF), e) ;
		}
	else fprintf (evf, ",\"%s\":[%lld,%d]", k, mi, e) ;
}

#include "sfdrive_cmd.inc"
static void iters_reset (void) { memset (iters, 0, sizeof (iters)) ; }

static void do_fault (void)
{	/* fault at kind sticky   (at = 0 disarms ; counting restarts) */
	io_count = 0 ; fault_hits = 0 ; fault_eff = 0 ;
	fault_at = tokll (1) ;
	const char *k = ntok > 2 ? toks [2] : "zero" ;
	fault_kind = !strcmp (k, "zero") ? 1 : !strcmp (k, "short") ? 2 : !strcmp (k, "seekfail") ? 3 : !strcmp (k, "lenbig") ? 4 : !strcmp (k, "lensmall") ? 5 : 0 ;
	fault_sticky = ntok > 3 ? (int) tokll (3) : 0 ;
	ev_begin ("fault", -1) ; ev_int ("at", fault_at) ; ev_str ("kind", k) ; ev_int ("sticky", fault_sticky) ; ev_end () ;
}

static void end_scenario (void)
{	if (scn_id < 0) return ;
	/* close whatever the script left open, silently, then report the ledger */
	int left = 0 ;
	for (int h = 0 ; h < MAXH ; h++) if (hnd [h].sf)
	{	left++ ; char line [64] ; snprintf (line, sizeof (line), "close %d", h) ; split (line) ; do_close () ; }
	fault_at = 0 ;
	for (int f = 0 ; f < MAXFILES ; f++) if (files [f].used)
	{	path_remove (f) ;
		dfree (files [f].data) ; memset (&files [f], 0, sizeof (MEMFILE)) ; }
	ev_begin ("end", -1) ; ev_int ("left", left) ; ev_ledger () ; ev_int ("io", io_count) ; ev_int ("fhits", fault_hits) ; ev_end () ;
	fflush (evf) ;
}

static void *warm_thread (void *a) { return a ; }

int main (int argc, char **argv)
{	if (argc < 3) { fprintf (stderr, "usage: sfdrive script events [--from k] [--timeout s]\n") ; return 2 ; }
	int from = 0 ;
	for (int i = 3 ; i + 1 < argc ; i++)
	{	if (!strcmp (argv [i], "--from")) from = atoi (argv [i + 1]) ;
		else if (!strcmp (argv [i], "--timeout")) alarm_secs = atoi (argv [i + 1]) ;
		}
	FILE *sf = fopen (argv [1], "r") ; if (!sf) { perror (argv [1]) ; return 2 ; }
	int append = 0 ;
	for (int i = 3 ; i < argc ; i++) if (!strcmp (argv [i], "--append")) append = 1 ;
	evf = fopen (argv [2], (from > 0 || append) ? "a" : "w") ; if (!evf) { perror (argv [2]) ; return 2 ; }
	setvbuf (evf, NULL, _IOFBF, 1 << 20) ;
	/* the library prints diagnostics with printf in a few places : give stdio static buffers so that its lazily
	** allocated buffers do not show up in the heap ledger */
	{	static char ob [8192], eb [8192] ; setvbuf (stdout, ob, _IOFBF, sizeof (ob)) ; setvbuf (stderr, eb, _IOLBF, sizeof (eb)) ; }
	signal (SIGALRM, on_alarm) ; signal (SIGPIPE, SIG_IGN) ;
#ifdef HAVE_ASAN
	__sanitizer_set_death_callback (die_flush) ;
#else
	signal (SIGSEGV, on_crash) ; signal (SIGABRT, on_crash) ; signal (SIGBUS, on_crash) ; signal (SIGFPE, on_crash) ;
#endif
	(void) on_crash ;
	snprintf (tmpdir, sizeof (tmpdir), "/tmp/sfdrive_%d/tmp", (int) getpid ()) ;
	{	char top [256] ; snprintf (top, sizeof (top), "/tmp/sfdrive_%d", (int) getpid ()) ; mkdir (top, 0700) ; mkdir (tmpdir, 0700) ; }
	setenv ("TMPDIR", tmpdir, 1) ;
	/* warm up lazily allocated libc state so that the ledger baseline is stable */
	{	DIR *d = opendir ("/proc/self/fd") ; if (d) closedir (d) ; sf_error (NULL) ; sf_strerror (NULL) ;
		time_t t0 = 0 ; struct tm tmv ; char tb [64] ; tzset () ; gmtime_r (&t0, &tmv) ; localtime_r (&t0, &tmv) ; strftime (tb, sizeof (tb), "%c", &tmv) ;
		snprintf (tb, sizeof (tb), "%f %g", 1.5, 2.5e-7) ; (void) strtod ("1.5", NULL) ;
		{ pthread_t th ; if (pthread_create (&th, NULL, warm_thread, NULL) == 0) pthread_join (th, NULL) ; }
#ifdef HAVE_ASAN
		/* the sanitizer runtime starts its external symbolizer (a child process and two pipes) at the first report, including a
		** suppressed one : start it now so that those descriptors are part of the baseline and not of some later call */
		{ char sb [256] ; __sanitizer_symbolize_pc ((void *) (uintptr_t) &count_fds, "%f", sb, sizeof (sb)) ; }
#endif
		}
	size_t cap = 1 << 24 ; char *line = malloc (cap) ; int idx = -1 ; int skipping = 0 ;
	while (fgets (line, (int) cap, sf))
	{	if (line [0] == '#' || line [0] == '\n') continue ;
		if (!strncmp (line, "scn ", 4))
		{	if (!skipping) end_scenario () ;
			idx++ ; skipping = idx < from ;
			if (skipping) continue ;
			split (line) ;
			scn_id = (int) tokll (1) ; seqno = 0 ; fmode = 0 ; nodata = 0 ;
			scn_tag [0] = 0 ;
			base_heap = heap_now () ; base_fds = count_fds () ; base_tmp = count_tmp () ; io_count = 0 ; fault_at = 0 ; fault_hits = 0 ; fault_eff = 0 ; fault_kind = 0 ;
			ev_begin ("reset", -1) ;
			/* remaining tokens are key=value pairs copied into the event as cfg */
			fprintf (evf, ",\"cfg\":{\"idx\":%d", idx) ;
			for (int i = 2 ; i < ntok ; i++)
			{	char *eq = strchr (toks [i], '=') ; if (!eq) continue ; *eq = 0 ;
				if (!strcmp (toks [i], "fmode")) fmode = atoi (eq + 1) ;
				if (!strcmp (toks [i], "nodata")) nodata = atoi (eq + 1) ;
				char *endp ; long long v = strtoll (eq + 1, &endp, 0) ;
				if (*endp == 0 && eq [1]) fprintf (evf, ",\"%s\":%lld", toks [i], v) ; else fprintf (evf, ",\"%s\":\"%s\"", toks [i], eq + 1) ;
				}
			fputs ("}", evf) ; ev_end () ;
			continue ;
			}
		if (skipping) continue ;
		split (line) ; if (ntok == 0) continue ;
		const char *op = toks [0] ;
		if (!strcmp (op, "open")) do_open () ;
		else if (!strcmp (op, "close")) do_close () ;
		else if (!strcmp (op, "read")) do_read () ;
		else if (!strcmp (op, "write")) do_write () ;
		else if (!strcmp (op, "seek")) do_seek () ;
		else if (!strcmp (op, "file")) do_file () ;
		else if (!strcmp (op, "fault")) do_fault () ;
		else if (!do_ext (op)) { fprintf (stderr, "sfdrive: unknown op %s\n", op) ; return 2 ; }
		}
	end_scenario () ;
	fclose (evf) ;
	{	char cmd [300] ; snprintf (cmd, sizeof (cmd), "rm -rf /tmp/sfdrive_%d", (int) getpid ()) ; if (system (cmd)) {} }
	return 0 ;
}
