------------------------------- MODULE SfG711 -------------------------------
(***************************************************************************)
(* ITU-T G.711 mu-law and A-law, written from the Recommendation as        *)
(* integer arithmetic on sign / segment (exponent) / quantisation step     *)
(* (mantissa); nothing is copied from the library's tables.                *)
(* 16 bit linear convention: mu-law works on 14 significant bits (value/4),*)
(* A-law on 13 (value/8), magnitudes are truncated towards zero, the       *)
(* encoders see sign and magnitude separately.                             *)
(***************************************************************************)
EXTENDS Integers, Sequences

P2(n) == CASE n = 0 -> 1 [] n = 1 -> 2 [] n = 2 -> 4 [] n = 3 -> 8 [] n = 4 -> 16 [] n = 5 -> 32 [] n = 6 -> 64 [] n = 7 -> 128
           [] n = 8 -> 256 [] n = 9 -> 512 [] n = 10 -> 1024 [] n = 11 -> 2048 [] n = 12 -> 4096 [] n = 13 -> 8192 [] n = 14 -> 16384 [] n = 15 -> 32768

\* ---- mu-law ----
UBIAS == 132         \* 0x84 : 33 steps of 4
UCLIP == 32635
\* segment of a biased 16 bit magnitude b (132 <= b <= 32767): position of its leading one, counted from bit 7
USeg(b) == CHOOSE k \in 0..7 : b >= P2(k + 7) /\ b < P2(k + 8)
\* code of a 16 bit magnitude (>= 0) with sign bit s (0 positive, 1 negative); all bits of the code word are inverted
UEncodeMag(mag, s) ==
    LET b == (IF mag > UCLIP THEN UCLIP ELSE mag) + UBIAS
        seg == USeg(b)
        mant == (b \div P2(seg + 3)) % 16
    IN 255 - (s * 128 + seg * 16 + mant)
\* decoder: 16 bit linear value of a code
UDecode(c) ==
    LET u == 255 - c  s == u \div 128  seg == (u \div 16) % 8  mant == u % 16
        t == (mant * 8 + UBIAS) * P2(seg) - UBIAS
    IN IF s = 1 THEN -t ELSE t
\* the encoder's input is sign and the magnitude truncated to 14 bits (multiples of 4)
UEncode16(v) == IF v >= 0 THEN UEncodeMag((v \div 4) * 4, 0) ELSE UEncodeMag(((-v) \div 4) * 4, 1)
\* from a 14 bit magnitude index (what the float entry points compute)
UEncodeIdx(idx, neg) == UEncodeMag(idx * 4, IF neg THEN 1 ELSE 0)

\* ---- A-law ----
\* 13 bit magnitude m (0..4095): segment 0 covers 0..31 (step 2), segment k >= 1 covers 2^(k+4) .. 2^(k+5)-1
ASeg(m) == IF m < 32 THEN 0 ELSE CHOOSE k \in 1..7 : m >= P2(k + 4) /\ m < P2(k + 5)
Xor55(x) == LET bit(k) == (x \div P2(k)) % 2
                flip(k) == IF k % 2 = 0 THEN 1 - bit(k) ELSE bit(k)
            IN flip(0) + 2 * flip(1) + 4 * flip(2) + 8 * flip(3) + 16 * flip(4) + 32 * flip(5) + 64 * flip(6) + 128 * bit(7)
AEncodeMag(m, s) ==            \* s = 1 for positive values (A-law sets the sign bit for positive input), even bits inverted (0x55)
    LET mm == IF m > 4095 THEN 4095 ELSE m
        seg == ASeg(mm)
        mant == IF seg = 0 THEN (mm \div 2) % 16 ELSE (mm \div P2(seg)) % 16
        raw == s * 128 + seg * 16 + mant
    IN Xor55(raw)
ADecode(c) ==
    LET a == Xor55(c)  s == a \div 128  seg == (a \div 16) % 8  mant == a % 16
        t == IF seg = 0 THEN mant * 16 + 8 ELSE (mant * 16 + 264) * P2(seg - 1)
    IN IF s = 1 THEN t ELSE -t
\* the encoder's input is sign and the 16 bit magnitude divided by 16 (12 bits), i.e. 13 bit magnitude = 2 * index
AEncode16(v) == IF v >= 0 THEN AEncodeMag(2 * (v \div 16), 1) ELSE AEncodeMag(2 * ((-v) \div 16), 0)
AEncodeIdx(idx, neg) == AEncodeMag(2 * idx, IF neg THEN 0 ELSE 1)

\* ---- identities of the definitions themselves (checked by MC_conv) ----
UCodes == 0..255
UEncDecId == \A c \in UCodes \ {127} : UEncode16(UDecode(c)) = c        \* 0x7F is the second code for zero; the encoder emits 0xFF
AEncDecId == \A c \in UCodes : AEncode16(ADecode(c)) = c
=============================================================================
