SPECIFICATION Spec
CONSTANTS
  Mode = 32
  Ch = 1
  MaxFrames = 4
  MaxWrites = 3
  Depth = 3
  GEN = TRUE
  Pre = 0
  Alpha = "gen"
CONSTRAINT Bound
INVARIANTS PredAllowed Emit
