------------------------------ MODULE TraceFormat ------------------------------
(***************************************************************************)
(* C10: sf_format_check agrees with what can really be written; the format *)
(* enumeration commands are sound.  One event per (format word, channels,  *)
(* samplerate) tuple of the complete grid ("fmtcheck"), one per index of   *)
(* the three enumeration commands ("fmtenum").  The agreement predicate    *)
(* Consistent is evaluated by TLC; no table of "formats that ought to be   *)
(* valid" is used -- the property is about agreement.                      *)
(***************************************************************************)
EXTENDS SfTypes, TLC, Json, IOUtils

Tr == ndJsonDeserialize(IOEnv.TRACE)

VARIABLES l, bad, names, words, okMajors, listedMajors, ntuple, nopen

vars == <<l, bad, names, words, okMajors, listedMajors, ntuple, nopen>>
Ev == Tr[l]

FramesAsked == 8

\* what sf_format_check said = what sf_open (SFM_WRITE) did; an accepted tuple accepts frames through each of the four
\* sample types, closes without error and re-opens as the same container and encoding; a rejected one fails with an error
Consistent(e) ==
    /\ (e.chk # 0) = (e.opened # 0)
    /\ e.opened # 0 =>
          /\ \A i \in 1..4 : e.wrote[i] = FramesAsked /\ e.werr[i] = 0
          /\ e.cret = 0
          /\ e.ropen = 1
          /\ Major(e.rfmt) = Major(e.fmt) /\ Sub(e.rfmt) = Sub(e.fmt)
          /\ e.rch = e.ch
    /\ e.opened = 0 => e.gerr # 0

\* enumeration entries: in range -> success, a name, a format word not seen before in this list; out of range -> failure
EnumOK(e) ==
    IF e.kind = "info" THEN (e.ret = 0 => e.hasname = 1)       \* SFC_GET_FORMAT_INFO: success comes with a name
    ELSE IF e.idx >= 0 /\ e.idx < e.count
    THEN /\ e.ret = 0 /\ e.hasname = 1
         /\ <<e.kind, e.fmt>> \notin words
         /\ <<e.kind, e.name>> \notin names
         /\ e.kind = "simple" => e.chk = 1          \* every simple format passes sf_format_check
    ELSE e.ret # 0

Init == l = 1 /\ bad = <<>> /\ names = {} /\ words = {} /\ okMajors = {} /\ listedMajors = {} /\ ntuple = 0 /\ nopen = 0

Next ==
    /\ l <= Len(Tr) /\ l' = l + 1
    /\ LET e == Ev IN
       CASE e.op = "fmtcheck" ->
              /\ bad' = IF Consistent(e) THEN bad ELSE Append(bad, [s |-> e.s, i |-> e.i, op |-> "fmtcheck", why |-> "inconsistent", fmt |-> e.fmt, ch |-> e.ch, rate |-> e.rate])
              /\ okMajors' = IF e.opened # 0 /\ Consistent(e) THEN okMajors \cup {Major(e.fmt)} ELSE okMajors
              /\ ntuple' = ntuple + 1 /\ nopen' = nopen + (IF e.opened # 0 THEN 1 ELSE 0)
              /\ UNCHANGED <<names, words, listedMajors>>
         [] e.op = "fmtenum" ->
              /\ bad' = IF EnumOK(e) THEN bad ELSE Append(bad, [s |-> e.s, i |-> e.i, op |-> "fmtenum", why |-> e.kind, fmt |-> e.fmt, ch |-> 0, rate |-> e.idx])
              /\ names' = IF e.ret = 0 THEN names \cup {<<e.kind, e.name>>} ELSE names
              /\ words' = IF e.ret = 0 THEN words \cup {<<e.kind, e.fmt>>} ELSE words
              /\ listedMajors' = IF e.ret = 0 /\ e.kind = "major" THEN listedMajors \cup {Major(e.fmt)} ELSE listedMajors
              /\ UNCHANGED <<okMajors, ntuple, nopen>>
         [] e.op = "majors" ->
              \* final event of the run: every listed major format had at least one usable tuple
              /\ bad' = IF \A i \in 1..Len(e.list) : Major(e.list[i]) \in okMajors THEN bad
                        ELSE Append(bad, [s |-> e.s, i |-> e.i, op |-> "majors", why |-> "major without usable subtype", fmt |-> 0, ch |-> 0, rate |-> 0])
              /\ UNCHANGED <<names, words, okMajors, listedMajors, ntuple, nopen>>
         [] e.op \in {"crash", "timeout"} ->          \* a call of the grid never returned
              /\ bad' = Append(bad, [s |-> e.s, i |-> e.i, op |-> e.op, why |-> e.op, fmt |-> 0, ch |-> 0, rate |-> 0])
              /\ UNCHANGED <<names, words, okMajors, listedMajors, ntuple, nopen>>
         [] OTHER -> UNCHANGED <<bad, names, words, okMajors, listedMajors, ntuple, nopen>>

TSpec == Init /\ [][Next]_vars

Verdict == l = Len(Tr) + 1 =>
    PrintT(<<"VERDICT", ToJson([bad |-> IF Len(bad) > 20000 THEN SubSeq(bad, 1, 20000) ELSE bad, nbad |-> Len(bad), scenarios |-> ntuple, events |-> ntuple, lines |-> Len(Tr), opened |-> nopen])>>)
Accepted == TLCGet("stats").diameter - 1 = Len(Tr)
=============================================================================
