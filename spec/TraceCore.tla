------------------------------ MODULE TraceCore ------------------------------
(***************************************************************************)
(* Trace validator: replays the events recorded by harness/sfdrive from    *)
(* the real library through the actions of SfHandle and evaluates every    *)
(* clause after every call.  One run validates many scenarios (each        *)
(* starts with a "reset" event); a scenario that no action explains is     *)
(* appended to 'bad' and skipped up to the next reset (resynchronisation), *)
(* so one run reports every failing scenario.                              *)
(*                                                                         *)
(* Clauses evaluated here (property ids of /verif/properties.jsonl):       *)
(*  C01 data read back = data written (lossless pairs)                     *)
(*  C04 re-open of a closed file: parameters, N <= F < N+B, F frames then 0 *)
(*  C05 count / bounds / position contract of read and write               *)
(*  C06 data is a function of frame index (known map), seek contract       *)
(*  C08 two-pointer semantics of RDWR, truncate, re-open                   *)
(*  C09 failed calls leave the state unchanged and set an error,           *)
(*      successful ones leave no error                                     *)
(*  C11 crash images parse to the prefix the header promised               *)
(*  C14 descriptor closed iff close_desc                                   *)
(*  C15 widened outcome sets under faults (relax)                          *)
(*  C16 ledger (heap, descriptors, temp files) empty at scenario end       *)
(*  C19 a call on handle h changes no other handle (per-handle states)     *)
(***************************************************************************)
EXTENDS SfHandle, TLC, Json, IOUtils

SX == INSTANCE SequencesExt

Tr == ndJsonDeserialize(IOEnv.TRACE)

VARIABLES l,       \* next line of the trace
          skip,    \* resynchronising: ignore events up to the next reset
          bad,     \* rejected scenarios: [s, i, op, why]
          hs,      \* handle id -> handle state ( [life |-> "free"] when not open )
          cont,    \* content id -> content
          files,   \* file id -> what the backing store holds
          ncid,    \* next content id
          cfg,     \* cfg of the current scenario
          fault,   \* a fault schedule is armed
          closed,  \* C07: written files closed in this scenario: [fmt, ch, rate, val, kt, dig, flen]
          canon,   \* C07/C14/C19: digests of the files closed by earlier scenarios with the same cfg.ckey
          nclose,  \* number of write-closes in this scenario
          aux,     \* scenario-level tables: chexp = digests of generated chunk payloads, keyed by <<datalen, seed, bytes>>
          nscn, nev  \* counters for the evidence

vars == <<l, skip, bad, hs, cont, files, ncid, cfg, fault, closed, canon, nclose, aux, nscn, nev>>

Ev == Tr[l]
Has(e, f) == f \in DOMAIN e
Get(e, f, d) == IF f \in DOMAIN e THEN e[f] ELSE d

HIDS == 0..15
FIDS == 0..63
Free == [life |-> "free"]
NoFile == [kind |-> "none"]

CfgRelax == Get(cfg, "relax", 0) = 1

\* C15: an armed fault schedule matters only once it has changed the answer of some I/O callback: the driver counts those in
\* "fe" (traces recorded without the counter are treated as fired).  Until then every call is judged by the strict clauses.
Fired(e) == Get(e, "fe", 1) > 0
FaultOn(e) == fault /\ Fired(e)

ModeOf(m) == IF m = "r" THEN SFM_READ ELSE IF m = "w" THEN SFM_WRITE ELSE SFM_RDWR

\* observation of a data-path call, from the event
ObsOf(e) == [ret |-> Get(e, "ret", 0), out |-> Get(e, "out", <<>>), outn |-> Get(e, "outn", Len(Get(e, "out", <<>>))), tz |-> Get(e, "tz", 1), guard |-> Get(e, "guard", 1),
             er |-> e.st.er, rp |-> e.st.rp, wp |-> e.st.wp, fr |-> e.st.fr, nd |-> e.st.nd, nf |-> e.st.nf, sif |-> e.st.sif, sfi |-> e.st.sfi, cl |-> e.st.cl]

CallOf(e) == CASE e.op = "read"  -> [op |-> "read", T |-> e.T, unit |-> e.unit, n |-> e.n, dy |-> Get(cfg, "fmode", 0) = 1]
               [] e.op = "write" -> [op |-> "write", T |-> e.T, unit |-> e.unit, n |-> e.n, v |-> e.v, dy |-> Get(cfg, "fmode", 0) = 1]
               [] e.op = "seek"  -> [op |-> "seek", off |-> e.off, wh |-> e.wh]
               [] e.op = "trunc" -> [op |-> "trunc", n |-> e.n]
               [] e.op = "cmd"   -> [op |-> "cmd", name |-> e.name, val |-> e.val]
               [] OTHER          -> [op |-> e.op]

\* the public error query agrees with the hook, and the hook agrees with the model's view of have_written
HookOK(s, e) == /\ Has(e, "err") => (e.err # 0) = (e.st.er # 0)
                /\ e.st.md = s.mode

-----------------------------------------------------------------------------
\* C12: metadata set before the audio survives close and re-open (only the documented normalisations apply)
WavFamily == {M_WAV, M_WAVEX, M_RF64}
\* which string types each container stores (transcribed from wavlike_write_strings, aiff_write_strings, caf_write_strings)
StrTypes(m) == CASE m \in WavFamily -> {1, 2, 3, 4, 5, 6, 7, 9, 16}
                 [] m = M_AIFF -> {1, 2, 3, 4, 5}
                 [] m = M_CAF -> {1, 2, 3, 4, 5, 6, 7, 8, 9, 16}
                 [] OTHER -> {}
\* support matrix of the structured items
Supports(m, kind) == CASE kind = "bext" -> m \in WavFamily
                       [] kind = "cart" -> m \in {M_WAV, M_RF64}
                       [] kind = "cues" -> m \in {M_WAV, M_WAVEX, M_AIFF}
                       [] kind = "inst" -> m \in {M_WAV, M_WAVEX, M_AIFF}
                       [] kind = "chmap" -> m \in {M_WAVEX, M_RF64, M_CAF}
                       [] OTHER -> FALSE
IsPrefixOf(a, b) == Len(a) <= Len(b) /\ SubSeq(b, 1, Len(a)) = a
\* line ends: CR LF, LF and CR all become CR LF (coding history, cart tag text)
CRLF(t) == LET step(acc, c) ==
                 IF c = 10 THEN (IF acc.cr THEN [out |-> acc.out, cr |-> FALSE] ELSE [out |-> acc.out \o <<13, 10>>, cr |-> FALSE])
                 ELSE IF c = 13 THEN [out |-> acc.out \o <<13, 10>>, cr |-> TRUE]
                 ELSE [out |-> Append(acc.out, c), cr |-> FALSE]
           IN SX!FoldLeft(step, [out |-> <<>>, cr |-> FALSE], t).out
\* software string: the library appends " (libsndfile-x.y.z)" and cuts the result to 127 bytes
SoftwareNorm(set, got) == LET n == Min(Len(set), Len(got)) IN
                          /\ SubSeq(set, 1, n) = SubSeq(got, 1, n)
                          /\ (Len(got) >= Len(set) \/ Len(got) = 127)
Keep(e) == [k \in (DOMAIN e \ {"s", "i", "h", "st", "flen", "err", "ret", "io", "op"}) |-> e[k]]
MetaKey(e) == IF e.op \in {"setstr", "getstr"} THEN <<"str", e.type>> ELSE <<e.kind>>

\* the library keeps broadcast and cart items in fixed 16 KiB structures: an item whose variable part goes beyond that may be refused
\* (and, being refused, must leave what was stored before untouched: SetMetaPost keeps the model's item, GetMetaOK compares after re-open)
MetaTooBig(e) == e.kind \in {"bext", "cart"} /\ e.n > 16000
SetMetaOK(s, e) ==
    /\ SamePos(s, ObsOf(e))
    /\ (s.mode # SFM_READ /\ ~s.hw /\ ~s.relax) =>
          IF e.op = "setstr" THEN (e.type \in StrTypes(Major(s.fmt)) /\ Len(e.text) > 0) => e.ret = 0
          ELSE (Supports(Major(s.fmt), e.kind) /\ e.kind # "chmap" /\ ~MetaTooBig(e)) => e.ret = 1      \* (a channel map must also fit a layout the container knows)
SetMetaPost(s, e) ==
    LET ok == IF e.op = "setstr" THEN e.ret = 0 ELSE e.ret = 1 IN
    IF ok /\ ~s.hw THEN [Adopt(s, ObsOf(e)) EXCEPT !.meta = (MetaKey(e) :> Keep(e)) @@ s.meta] ELSE Adopt(s, ObsOf(e))

SameFields(a, b, fs) == \A f \in fs : a[f] = b[f]
\* (the bext version number is chosen by the library from the fields in use)
BextFields == {"desc", "orig", "oref", "odate", "otime", "trl", "trh", "umid", "lv", "lr", "mtp", "mml", "msl"}
CartFields == {"cver", "title", "artist", "cut", "client", "cat", "class", "outcue", "sdate", "stime", "edate", "etime", "app", "appver", "user", "level", "timers", "url"}
CueSame(m, a, b) ==
    IF m = M_AIFF THEN a.indx = b.indx /\ b.so = a.pos /\ b.name = a.name       \* MARK: id, position, name (position comes back as sample_offset)
    ELSE a.indx = b.indx /\ a.pos = b.pos /\ a.fcc = b.fcc /\ a.cs = b.cs /\ a.bs = b.bs /\ a.so = b.so   \* 'cue ' chunk: no names
GetMetaOK(s, e) ==
    LET m == Major(s.fmt)  key == MetaKey(e) IN
    (s.mode = SFM_READ /\ ~s.relax /\ key \in DOMAIN s.fmeta) =>
      LET w == s.fmeta[key] IN
      CASE e.op = "getstr" ->
             (e.type \in StrTypes(m) /\ Len(w.text) > 0) =>
                 (e.null = 0 /\ IF e.type = 3 THEN SoftwareNorm(w.text, e.text) ELSE e.text = w.text)
        [] e.kind = "bext" -> Supports(m, "bext") =>
                 (e.ret = 1 /\ SameFields(w, e, BextFields) /\ IsPrefixOf(CRLF(w.hist), e.hist))           \* + the library's own history line
        [] e.kind = "cart" -> Supports(m, "cart") =>
                 (e.ret = 1 /\ SameFields(w, e, CartFields) /\ IsPrefixOf(w.tag, e.tag))
        [] e.kind = "cues" -> Supports(m, "cues") =>
                 (e.ret = 1 /\ e.count = w.count /\ e.cnt = w.count /\ Len(e.cues) = Len(w.cues)
                  /\ \A i \in 1..Len(w.cues) : CueSame(m, w.cues[i], e.cues[i]))
        [] e.kind = "inst" -> Supports(m, "inst") =>
                 (e.ret = 1 /\ e.base = w.base /\ e.detune = w.detune /\ e.nloops = w.nloops /\ e.loops = w.loops)   \* 'smpl' chunk: note, detune, loops
        [] e.kind = "chmap" -> Supports(m, "chmap") => (e.ret = 1 /\ e.map = w.map)
        [] OTHER -> TRUE

-----------------------------------------------------------------------------
\* C18: signal maxima.  Values are compared exactly: float/double samples are logged as dyadics on the k/1024 grid,
\* integer samples as integers; the expected maximum is computed here from the content the model holds.
GridQ == 10
IsPcmInt(fmt) == IntWidth(Sub(fmt)) > 0 /\ UnnormWidth(fmt) >= IntWidth(Sub(fmt))     \* every integer-lossless encoding (PCM, ALAC, DWVW, PAF-24, DPCM-16, SDS-16)
IsFloatEnc(fmt) == Sub(fmt) \in {S_FLOAT, S_DOUBLE}
PeakContainer(fmt) == Major(fmt) \in {M_WAV, M_WAVEX, M_AIFF, M_CAF}

\* magnitude key of item i of the content (an integer; comparable within one file)
ItemKey(s, cv, i) ==
    IF cv.kt[i] \in {"f", "d"} THEN Abs(DyOver(cv.val[i], GridQ))
    ELSE Abs(cv.val[i] \div Pow2(TypeBits(cv.kt[i]) - IntWidth(Sub(s.fmt))))      \* the stored code of an integer sample
AllKnown(s, cv) ==
    /\ Len(cv.kt) = s.frames * s.ch /\ Len(cv.kt) > 0
    /\ \A i \in 1..Len(cv.kt) :
          \/ (cv.kt[i] \in {"f", "d"} /\ IsFloatEnc(s.fmt) /\ Get(cfg, "fmode", 0) = 1 /\ OnGrid(cv.val[i], GridQ))
          \/ (cv.kt[i] \in {"s", "i"} /\ IsPcmInt(s.fmt) /\ IntWidth(Sub(s.fmt)) <= TypeBits(cv.kt[i]))
ChanIdx(s, c) == {i \in 1..(s.frames * s.ch) : (i - 1) % s.ch = c - 1}
MaxKey(s, cv, I) == IF I = {} THEN 0 ELSE LET m == CHOOSE i \in I : \A j \in I : ItemKey(s, cv, j) <= ItemKey(s, cv, i) IN ItemKey(s, cv, m)
FirstAt(s, cv, I, k) == (CHOOSE i \in I : ItemKey(s, cv, i) = k /\ \A j \in I : (j < i => ItemKey(s, cv, j) # k))
\* the dyadic a command must return for magnitude key k
KeyValue(s, k, norm) ==
    IF IsFloatEnc(s.fmt) THEN DyNorm(k, -GridQ)
    ELSE IF norm THEN DyNorm(k, -(IntWidth(Sub(s.fmt)) - 1)) ELSE DyNorm(k, UnnormWidth(s.fmt) - IntWidth(Sub(s.fmt)))    \* (the unnormalised double of the code)

CalcValsOK(s, cv, e) ==
    (AllKnown(s, cv) /\ s.mode # SFM_WRITE /\ ~s.relax /\ s.skb) =>          \* (the scan needs a seekable handle)
      LET norm == e.name \in {"CALC_NORM_SIGNAL_MAX", "CALC_NORM_MAX_ALL_CHANNELS"}
          all  == 1..(s.frames * s.ch) IN
      CASE e.name \in {"CALC_SIGNAL_MAX", "CALC_NORM_SIGNAL_MAX"} ->
               e.ret = 0 /\ e.vals[1] = KeyValue(s, MaxKey(s, cv, all), norm)
        [] e.name \in {"CALC_MAX_ALL_CHANNELS", "CALC_NORM_MAX_ALL_CHANNELS"} ->
               e.ret = 0 /\ \A c \in 1..s.ch : e.vals[c] = KeyValue(s, MaxKey(s, cv, ChanIdx(s, c)), norm)
        [] OTHER -> TRUE
\* after re-open of a float/double file in a PEAK container: the stored peaks are the true maxima, at their first frame
HasPeak(s, cv) == AllKnown(s, cv) /\ IsFloatEnc(s.fmt) /\ PeakContainer(s.fmt) /\ s.mode = SFM_READ /\ ~s.relax
GetMaxOK(s, cv, e) ==
    HasPeak(s, cv) =>
      CASE e.name = "GET_SIGNAL_MAX" -> e.ret = 1 /\ e.vals[1] = KeyValue(s, MaxKey(s, cv, 1..(s.frames * s.ch)), FALSE)
        [] e.name = "GET_MAX_ALL_CHANNELS" -> e.ret = 1 /\ \A c \in 1..s.ch : e.vals[c] = KeyValue(s, MaxKey(s, cv, ChanIdx(s, c)), FALSE)
        [] OTHER -> TRUE
PeakQOK(s, cv, e) ==
    HasPeak(s, cv) =>
      /\ e.present = 1 /\ e.nch = s.ch
      /\ \A c \in 1..s.ch :
            LET I == ChanIdx(s, c) k == MaxKey(s, cv, I) IN
            /\ e.vals[c] = KeyValue(s, k, FALSE)
            /\ e.pos[c] = (FirstAt(s, cv, I, k) - 1) \div s.ch

-----------------------------------------------------------------------------
\* C13: application chunks (sf_set_chunk and the iterator functions)
ChunkContainer(fmt) == Major(fmt) \in {M_WAV, M_WAVEX, M_RF64, M_AIFF, M_CAF}
PadLen(n) == ((n + 3) \div 4) * 4                \* payloads are stored padded to a multiple of four bytes

SetChunkOK(s, e) ==
    /\ SamePos(s, ObsOf(e))
    /\ IF s.hw THEN e.ret # 0 /\ e.st.wu = Len(s.wch)                                 \* too late: refused, table untouched
       ELSE IF ChunkContainer(s.fmt) /\ s.mode # SFM_READ THEN
            e.ret = 0 /\ e.st.wu = Len(s.wch) + 1 /\ e.st.wu <= e.st.wc               \* stored; used never exceeds capacity
       ELSE e.ret # 0
SetChunkPost(s, e) ==
    IF e.ret = 0 THEN [Adopt(s, ObsOf(e)) EXCEPT !.wch = Append(@, [id |-> e.id, dl |-> e.dl, seed |-> e.seed])]
    ELSE Adopt(s, ObsOf(e))

OurIds(s) == {s.rch[i].id : i \in 1..Len(s.rch)}
WithId(q, id) == SelectSeq(q, LAMBDA c : c.id = id)

\* sf_get_chunk_iterator: by id -> NULL iff no stored chunk has that id
ChItOK(s, e) == s.relax \/ (e.byid = 1 => (e.null = 1) = (WithId(s.rch, e.id) = <<>>))
ChItPost(s, e) ==
    IF s.relax THEN s ELSE
    [s EXCEPT !.it = IF e.null = 1 THEN [mode |-> "none"]
                     ELSE [mode |-> IF e.byid = 1 THEN "id" ELSE "all", q |-> IF e.byid = 1 THEN WithId(s.rch, e.id) ELSE s.rch,
                           k |-> 0, fresh |-> TRUE]]
\* sf_next_chunk_iterator: NULL only after every expected chunk has been visited; by id it is NULL exactly then
ChNextOK(s, e) ==
    IF s.relax THEN TRUE
    ELSE IF s.it.mode = "none" THEN e.null = 1
    ELSE IF e.null = 1 THEN s.it.k = Len(s.it.q)
    ELSE s.it.mode = "id" => s.it.k < Len(s.it.q)
ChNextPost(s, e) == IF s.relax THEN s ELSE [s EXCEPT !.it = IF e.null = 1 \/ s.it.mode = "none" THEN [mode |-> "none"] ELSE [@ EXCEPT !.fresh = TRUE]]

\* sf_get_chunk_size / sf_get_chunk_data at the current position
ChunkMatches(c, e) ==
    LET size == PadLen(c.dl)  m == Min(e.buflen, size)  key == <<c.dl, c.seed, m>> IN
    /\ e.r1 = 0 /\ e.r2 = 0 /\ e.size = size /\ e.id = c.id
    /\ key \in DOMAIN aux.chexp /\ aux.chexp[key] = e.dig            \* payload bytes (zero padded), at most buflen of them
ChGetOK(s, e) ==
    /\ e.guard = 1                                                    \* never more than the caller's datalen bytes
    /\ IF s.relax THEN TRUE                                           \* hostile input: whatever chunks it has
       ELSE IF s.it.mode = "none" THEN e.r2 # 0
       ELSE IF s.it.mode = "all" /\ e.id \notin OurIds(s) THEN TRUE   \* one of the container's own chunks
       ELSE LET idx == IF s.it.fresh THEN s.it.k + 1 ELSE s.it.k IN
            idx >= 1 /\ idx <= Len(s.it.q) /\ ChunkMatches(s.it.q[idx], e)
ChGetPost(s, e) ==
    IF s.relax \/ s.it.mode = "none" \/ (s.it.mode = "all" /\ e.id \notin OurIds(s)) THEN s
    ELSE [s EXCEPT !.it = [@ EXCEPT !.k = IF s.it.fresh THEN @ + 1 ELSE @, !.fresh = FALSE]]

-----------------------------------------------------------------------------
\* data-path calls on an open handle
\* C05 / C15: a write call reports at least what reached the stream.  For an appending write of a write-only handle of a
\* sample-granular encoding on the driver's own backing store, the store grows by no more than the frames the call reports --
\* also while I/O faults shorten transfers (the count returned must cover every byte the I/O layer accepted).
\* (only transfer faults: after a failed seek or a wrong length answer the library may be writing somewhere else, which no property forbids)
StreamLenOK(s, e) ==
    (s.mode = SFM_WRITE /\ s.gran /\ s.route = "vio" /\ Has(e, "flen") /\ "flen" \in DOMAIN s /\ s.flen >= 0 /\ ~CfgRelax
     /\ s.wpos = s.frames /\ e.st.fr < 1000000 /\ Get(e, "fk", 0) \in {0, 1, 2} /\ s.hw)
        => e.flen - s.flen <= (e.st.wp - s.wpos) * ByteWidth(Sub(s.fmt)) * s.ch

CallOK(s, cv, e) ==
    LET c == CallOf(e) o == ObsOf(e) IN
    /\ HookOK(s, e)
    /\ CASE e.op = "read" /\ e.T = "r" -> RawReadOK(s, cv, c, o)
         [] e.op = "read"  -> ReadOK(s, cv, c, o)
         [] e.op = "write" /\ e.T = "r" -> TRUE
         [] e.op = "write" -> WriteOK(s, cv, c, o) /\ StreamLenOK(s, e)
         \* (C09: a seek that fails leaves the file contents as they were, whatever the handle -- also the RDWR handles of block
         \*  encodings that the model otherwise follows with widened clauses)
         [] e.op = "seek"  -> SeekOK(s, cv, c, o) /\ ((e.ret = -1 /\ ~FaultOn(e) /\ ~CfgRelax) => Get(e, "sc", 0) = 0)
         [] e.op = "trunc" -> TruncOK([s EXCEPT !.relax = s.relax \/ s.route = "vio"], cv, c, o)
         [] e.op = "cmd"   -> CmdOK(s, cv, c, o)
         [] e.op = "calc"  -> CalcOK(s, cv, c, o) /\ e.st.nd = s.nd /\ e.st.nf = s.nf      \* position and normalisation as they were
                              /\ CalcValsOK(s, cv, e) /\ GetMaxOK(s, cv, e)
         [] e.op = "peakq" -> SamePos(s, o) /\ PeakQOK(s, cv, e)
         [] e.op \in {"setstr", "setmeta"} -> SetMetaOK(s, e)
         [] e.op \in {"getstr", "getmeta"} -> SamePos(s, o) /\ GetMetaOK(s, e)
         [] e.op = "setchunk" -> SetChunkOK(s, e)
         [] e.op = "chit"   -> SamePos(s, o) /\ ChItOK(s, e)
         [] e.op = "chnext" -> SamePos(s, o) /\ ChNextOK(s, e)
         [] e.op = "chget"  -> SamePos(s, o) /\ ChGetOK(s, e)
         [] OTHER -> SamePos(s, o)       \* queries: errq, info, getstr ... never move anything

CallPost(s, cv, e) ==
    LET c == CallOf(e) o == ObsOf(e) IN
    CASE e.op = "read" /\ e.T = "r" -> [s |-> Adopt(s, o), cv |-> cv]
      [] e.op = "read"  -> ReadPost(s, cv, c, o)
      [] e.op = "write" /\ e.T = "r" -> [s |-> [Adopt(s, o) EXCEPT !.hw = TRUE], cv |-> [cv EXCEPT !.kt = Rep("-", o.fr * s.ch), !.val = Rep(0, o.fr * s.ch), !.gen = cv.gen + 1]]
      [] e.op = "write" -> WritePost(s, cv, c, o)
      [] e.op = "seek"  -> SeekPost(s, cv, c, o)
      [] e.op = "trunc" -> TruncPost(s, cv, c, o)
      [] e.op = "cmd"   -> CmdPost(s, cv, c, o)
      [] e.op \in {"setstr", "setmeta"} -> [s |-> SetMetaPost(s, e), cv |-> cv]
      [] e.op = "setchunk" -> [s |-> SetChunkPost(s, e), cv |-> cv]
      [] e.op = "chit"   -> [s |-> ChItPost(Adopt(s, o), e), cv |-> cv]
      [] e.op = "chnext" -> [s |-> ChNextPost(Adopt(s, o), e), cv |-> cv]
      [] e.op = "chget"  -> [s |-> ChGetPost(Adopt(s, o), e), cv |-> cv]
      [] OTHER -> [s |-> Adopt(s, o), cv |-> cv]

\* a raw-less event without state (guard against driver changes)
HasState(e) == Has(e, "st")

-----------------------------------------------------------------------------
\* sf_open / sf_open_fd / sf_open_virtual
NewHandle(e, cid, B, relax) ==
    [life |-> "open", mode |-> ModeOf(e.mode), ch |-> e.ch, fmt |-> e.fmt, rate |-> e.rate,
     B |-> B, gran |-> IsGranular(e.fmt), skb |-> (e.st.sk # 0),      \* (SF_INFO.seekable is zeroed for write handles; the handle itself knows)
     frames |-> IF ModeOf(e.mode) = SFM_WRITE THEN 0 ELSE IF relax THEN Min(e.st.fr, 1000000) ELSE e.st.fr, rpos |-> e.st.rp, wpos |-> e.st.wp, err |-> (e.st.er # 0),
     hw |-> (e.st.hw # 0), auto |-> FALSE, relax |-> relax, cid |-> cid, fid |-> e.fid, route |-> e.route, meta |-> <<>>,
     wch |-> <<>>, rch |-> <<>>, it |-> [mode |-> "none"], nd |-> e.st.nd, nf |-> e.st.nf, fmeta |-> <<>>, nreal |-> -1, sif |-> e.st.sif, sfi |-> e.st.sfi, cl |-> e.st.cl, flen |-> -1]

OpenFailedOK(e) == /\ e.gerr # 0 /\ e.gmsg > 0              \* C09: NULL, global error with a message
                   /\ Get(e, "fdleak", 0) = 0               \* C16: nothing left behind
                   /\ Get(e, "heapleak", 0) = 0

\* fresh file for writing (or RDWR on an empty store)
OpenNewOK(e) ==
    IF e.ok = 0 THEN OpenFailedOK(e)
    ELSE /\ e.gerr = 0 /\ e.st.er = 0
         /\ e.st.rp = 0 /\ e.st.wp = 0 /\ e.fr = 0
         /\ IsGranular(e.fmt) => e.st.fr = 0               \* C04: stale info.frames has no influence
         /\ e.ch = e.ach /\ (ExactRate(e.fmt) => e.rate = e.arate)
         /\ Major(e.fmt) = Major(e.afmt) /\ Sub(e.fmt) = Sub(e.afmt)

\* existing file produced earlier in this scenario (closed file, or crash image)
OpenWrittenOKy(e, f, est, anyrate) ==
    LET info == [ch |-> e.ch, fmt |-> e.fmt, rate |-> e.rate, fr |-> e.fr, frneg |-> e.frneg, sec |-> e.sec] IN
    /\ e.ok = 1 /\ e.gerr = 0 /\ e.st.er = 0
    /\ Sane(info)
    /\ InfoMatchesX(f.fmt, f.ch, f.rate, info, anyrate)
    /\ e.st.fr = e.fr /\ e.st.rp = 0
    /\ IF f.kind = "written" THEN (IF est /\ Major(f.fmt) = M_RAW /\ Sub(f.fmt) \in {S_DWVW12, S_DWVW16, S_DWVW24, S_DWVWN}
                                   THEN e.fr >= 0            \* headerless bit stream, the count is an estimate from the file length
                                   ELSE FramesAfterClose(f.fmt, f.ch, f.B, f.N, e.fr))
       ELSE \* crash image (C11); DWVW has no frame aligned blocks: any prefix
            IF Sub(f.fmt) \in {S_DWVW12, S_DWVW16, S_DWVW24, S_DWVWN} THEN e.fr <= f.N
            ELSE FramesInImage(f.B, f.N, e.fr)

OpenWrittenOKx(e, f, est) == OpenWrittenOKy(e, f, est, FALSE)
OpenWrittenOK(e, f) == OpenWrittenOKx(e, f, FALSE)

OpenHostileOK(e) ==
    IF e.ok = 0 THEN OpenFailedOK(e)
    ELSE Sane([ch |-> e.ch, fmt |-> e.fmt, rate |-> e.rate, fr |-> e.fr, frneg |-> e.frneg, sec |-> e.sec])

FileOf(e) == files[e.fid]

\* foreign files: one content per file id (ids 700 + fid are never handed out by ncid), shared by every handle that opens it;
\* the first open records what the file is, later opens through any route must agree
ForeignCid(e) == 700 + e.fid
ForeignInfo(e) == IF e.ok = 1 THEN <<1, e.ch, e.rate, e.fmt, e.fr>> ELSE <<0>>
OpenForeignOK(e) ==
    LET cv == cont[ForeignCid(e)] IN
    /\ IF e.ok = 0 THEN OpenFailedOK(e)
       ELSE e.gerr = 0 /\ e.st.er = 0 /\ Sane([ch |-> e.ch, fmt |-> e.fmt, rate |-> e.rate, fr |-> e.fr, frneg |-> e.frneg, sec |-> e.sec])
    /\ (cv.info # <<>>) => cv.info = ForeignInfo(e)

OpenClass(e) ==
    LET f == FileOf(e) IN
    IF e.mode = "w" \/ f.kind \in {"none", "empty"} THEN "new"
    \* (RDWR on a block encoding is accepted by the library but no I/O works on such a handle: outside C08, only C03-level sanity is required)
    ELSE IF f.kind \in {"written", "image"} /\ ~FaultOn(e) /\ ~CfgRelax /\ (f.kind = "image" => f.valid)
            /\ ~(e.mode = "rw" /\ ~IsGranular(f.fmt)) THEN "written"
    ELSE IF f.kind = "foreign" /\ e.mode = "r" /\ ~FaultOn(e) /\ ~CfgRelax THEN "foreign"
    ELSE "hostile"

OpenOK(e) ==
    CASE e.mode = "rw" /\ e.ok = 0 -> OpenFailedOK(e)       \* the library decides which encodings can be opened RDWR (C08 quantifies over those)
      \* C14: embedding / pipes only for the containers that support them (docs: WAV, AIFF, AU; WAVEX shares the WAV parser):
      \* for those a valid file embedded at an offset or arriving through a pipe must open
      [] e.route \in {"emb44", "emb4096", "embz44", "embz4096", "embw44", "pipe"} /\ e.ok = 0
         /\ ~(e.mode = "r" /\ OpenClass(e) = "written" /\ Major(FileOf(e).fmt) \in {M_WAV, M_WAVEX, M_AIFF, M_AU})
         /\ OpenClass(e) # "foreign" -> OpenFailedOK(e)          \* (a foreign file is vouched for on the routes its scenario uses: all must agree)
      [] OpenClass(e) = "new" -> IF FaultOn(e) \/ CfgRelax THEN (e.ok = 0 => OpenFailedOK(e)) ELSE OpenNewOK(e)
      [] OpenClass(e) = "written" -> OpenWrittenOK(e, FileOf(e))
      [] OpenClass(e) = "foreign" -> OpenForeignOK(e)
      [] OTHER -> OpenHostileOK(e)

\* content seen by the new handle
OpenEffect(e) ==
    LET f == FileOf(e) cls == OpenClass(e) h == e.h
        B == BlockFrames(e.fmt, e.ch, e.rate)
        relax == FaultOn(e) \/ CfgRelax \/ cls = "hostile" IN
    IF e.ok = 0 THEN (IF cls = "foreign" THEN cont' = [cont EXCEPT ![ForeignCid(e)].info = ForeignInfo(e)] /\ UNCHANGED <<hs, ncid>>
                      ELSE UNCHANGED <<hs, cont, ncid>>)
    ELSE IF cls = "foreign" THEN
         LET cid == ForeignCid(e)  cv == cont[cid]  n == e.fr * e.ch
             cv2 == IF cv.info = <<>> THEN [NewContent EXCEPT !.val = Rep(0, n), !.kt = Rep("-", n), !.info = ForeignInfo(e)] ELSE cv IN
         /\ hs' = [hs EXCEPT ![h] = NewHandle(e, cid, B, FALSE)]
         /\ cont' = [cont EXCEPT ![cid] = cv2]
         /\ ncid' = ncid
    ELSE IF cls = "written" /\ cont[f.cid].gen = f.gen THEN
         \* share the content of the writer; frames beyond what was written (block padding) are unknown
         LET cv == cont[f.cid] n == e.fr * e.ch
             cv2 == IF Len(cv.kt) >= n THEN cv
                    ELSE [cv EXCEPT !.val = cv.val \o Rep(0, n - Len(cv.val)), !.kt = cv.kt \o Rep("-", n - Len(cv.kt))] IN
         /\ hs' = [hs EXCEPT ![h] = [NewHandle(e, f.cid, B, relax) EXCEPT !.rch = Get(f, "chunks", <<>>), !.fmeta = Get(f, "meta", <<>>),
                                                                            !.nreal = IF f.kind = "written" THEN f.N ELSE -1]]
         /\ cont' = [cont EXCEPT ![f.cid] = cv2]
         /\ ncid' = ncid
    ELSE /\ hs' = [hs EXCEPT ![h] = NewHandle(e, ncid, B, relax)]
         \* (hostile input may claim any frame count: no content map is kept for it, relaxed handles neither compare nor learn data)
         /\ LET n == IF e.mode = "w" \/ relax THEN 0 ELSE e.st.fr * e.ch IN
            cont' = [cont EXCEPT ![ncid] = [NewContent EXCEPT !.val = Rep(0, n), !.kt = Rep("-", n)]]
         /\ ncid' = ncid + 1

-----------------------------------------------------------------------------
\* sf_close
\* containers that store the file name in the header (C14: the only permitted difference between routes)
NameInHeader(fmt) == Major(fmt) \in {M_SVX, M_MPC2K}

\* C07: the bytes of a written file depend only on the open parameters and the concatenated samples --
\* two files of this scenario with the same parameters and the same sample sequence are byte identical
SameBytesOK(s, e) ==
    LET cv == cont[s.cid] IN
    \A i \in 1..Len(closed) :
        LET f == closed[i] IN
        \* (values of different caller types have different shapes -- integers, dyadic pairs, bit pattern pairs -- and TLC refuses to
        \*  compare those: the sequences are compared through their printed form, after everything cheaper)
        (f.fmt = s.fmt /\ f.ch = s.ch /\ f.rate = s.rate /\ f.kt = cv.kt /\ f.meta = <<s.meta, s.wch>> /\ ToString(f.val) = ToString(cv.val)
            /\ ~(NameInHeader(s.fmt) /\ (f.route = "path") # (s.route = "path")))
          => (f.dig = e.dig /\ f.flen = e.flen)
\* and equal to what an earlier scenario (other process, other interleaving, other route) with the same key produced
CanonOK(s, e) ==
    (Has(cfg, "ckey") /\ cfg.ckey \in DOMAIN canon /\ nclose + 1 <= Len(canon[cfg.ckey]))
        => canon[cfg.ckey][nclose + 1] = <<e.dig, e.flen>>

CloseOK(s, e) ==
    /\ (~s.relax) => e.ret = 0
    /\ e.fdclosed # -1 => e.fdclosed = e.closedesc            \* C14
    /\ (s.mode = SFM_WRITE /\ ~s.relax) => (SameBytesOK(s, e) /\ CanonOK(s, e))
CloseEffect(s, e) ==
    LET cv == cont[s.cid] IN
    /\ hs' = [hs EXCEPT ![e.h] = Free]
    /\ IF s.mode = SFM_WRITE /\ ~s.relax
       THEN /\ closed' = Append(closed, [fmt |-> s.fmt, ch |-> s.ch, rate |-> s.rate, val |-> cv.val, kt |-> cv.kt, meta |-> <<s.meta, s.wch>>,
                                          route |-> s.route, dig |-> e.dig, flen |-> e.flen])
            /\ nclose' = nclose + 1
            /\ canon' = IF Has(cfg, "ckey") /\ ~(cfg.ckey \in DOMAIN canon /\ nclose + 1 <= Len(canon[cfg.ckey]))
                         THEN (IF cfg.ckey \in DOMAIN canon THEN [canon EXCEPT ![cfg.ckey] = Append(@, <<e.dig, e.flen>>)]
                               ELSE canon @@ (cfg.ckey :> << <<e.dig, e.flen>> >>))
                         ELSE canon
       ELSE UNCHANGED <<closed, nclose, canon>>
    /\ files' = IF s.mode = SFM_READ THEN files
                ELSE [files EXCEPT ![s.fid] = [kind |-> IF s.relax THEN "hostile" ELSE "written", cid |-> s.cid, N |-> s.frames, B |-> s.B,
                                               fmt |-> s.fmt, ch |-> s.ch, rate |-> s.rate, gen |-> cv.gen, valid |-> TRUE, chunks |-> s.wch, meta |-> s.meta]]

\* environment copies a backing store (crash image of an open writer, or plain copy of a closed file)
WriterOf(fid) == {h \in HIDS : hs[h].life = "open" /\ hs[h].fid = fid /\ hs[h].mode # SFM_READ}
FileEffect(e) ==
    IF e.kind = "new" THEN files' = [files EXCEPT ![e.fid] = [kind |-> "empty"]]
    ELSE IF e.kind = "copy" THEN
        LET w == WriterOf(e.src) IN
        IF w = {} THEN files' = [files EXCEPT ![e.fid] = files[e.src]]
        ELSE LET h == CHOOSE x \in w : TRUE  s == hs[h]  cv == cont[s.cid] IN
             files' = [files EXCEPT ![e.fid] = [kind |-> "image", cid |-> s.cid, N |-> cv.hdrN, B |-> s.B, fmt |-> s.fmt, ch |-> s.ch,
                                                 rate |-> s.rate, gen |-> cv.gen,
                                                 valid |-> (cv.hdrN = s.frames /\ ~s.relax /\ s.route = "vio")]]
    \* (a file given as bytes is hostile input unless the scenario vouches for it -- trust=1: a valid file not written by this library;
    \*  such a file must then give the same SF_INFO, samples and outcomes through every route, C14)
    ELSE files' = [files EXCEPT ![e.fid] = [kind |-> IF Get(cfg, "trust", 0) = 1 THEN "foreign" ELSE "hostile"]]

-----------------------------------------------------------------------------
\* C09: every error number has a non-empty text; the text of a recorded error is non-empty and NUL terminated
ErrTabOK(e) == \A i \in 1..Len(e.lens) : e.lens[i] > 0
ErrQOK(e) == /\ e.mlen > 0 /\ e.nlen > 0 /\ e.sguard = 1 /\ e.snul = 1
             /\ (Has(e, "st") => (e.e # 0) = (e.st.er # 0))

EndOK(e) == e.led.a = 0 /\ e.led.fd = 0 /\ e.led.tmp = 0        \* C16

\* one event explained by the specification
\* A single-shot seek fault that hits an explicit sf_seek, which then fails cleanly (SeekFailObs: -1, error, nothing moved), is
\* over: the handle is where it was and "data the I/O layer accepted before the failure is not corrupted by later calls" is
\* checked by going back to the strict clauses for the rest of the scenario (sample granular encodings).
Absorbed(e) == /\ e.op = "seek" /\ fault /\ ~CfgRelax /\ e.h >= 0 /\ hs[e.h].life = "open" /\ ~hs[e.h].relax /\ hs[e.h].gran
               /\ Get(e, "fk", 0) = 3 /\ Get(e, "fe", 0) = 1 /\ Get(e, "fa", 1) = 0 /\ e.ret = -1

Obs ==
    LET e == Ev IN
    CASE e.op = "open" ->
            /\ hs[e.h].life = "free"
            /\ OpenOK(e) /\ OpenEffect(e) /\ UNCHANGED <<files, closed, nclose, canon, aux>>
      [] e.op = "close" ->
            /\ hs[e.h].life = "open"
            /\ LET s == [hs[e.h] EXCEPT !.relax = @ \/ FaultOn(e)] IN CloseOK(s, e) /\ CloseEffect(s, e) /\ UNCHANGED <<cont, ncid, aux>>
      [] e.op = "file" -> FileEffect(e) /\ UNCHANGED <<hs, cont, ncid, closed, nclose, canon, aux>>
      [] e.op = "end" -> EndOK(e) /\ UNCHANGED <<hs, cont, files, ncid, closed, nclose, canon, aux>>
      [] e.op \in {"crash", "timeout"} -> FALSE                 \* a call that never returned (C03, C15)
      [] e.op = "errtab" -> ErrTabOK(e) /\ UNCHANGED <<hs, cont, files, ncid, closed, nclose, canon, aux>>
      [] e.op = "chexp" -> /\ aux' = [aux EXCEPT !.chexp = (<<e.dl, e.seed, e.plen>> :> e.dig) @@ @]
                           /\ UNCHANGED <<hs, cont, files, ncid, closed, nclose, canon>>
      [] e.op \in {"fault", "fmtcheck", "fmtenum", "chk"} -> UNCHANGED <<hs, cont, files, ncid, closed, nclose, canon, aux>>
      \* the descriptor under the handle has been closed behind the library's back: from now on its I/O fails for real (C15)
      [] e.op = "fdclose" -> /\ hs' = [hs EXCEPT ![e.h] = IF @.life = "open" THEN [@ EXCEPT !.relax = TRUE] ELSE @]
                            /\ UNCHANGED <<cont, files, ncid, closed, nclose, canon, aux>>
      [] OTHER ->
            IF e.h < 0 \/ ~HasState(e) THEN (e.op = "errq" => ErrQOK(e)) /\ UNCHANGED <<hs, cont, files, ncid, closed, nclose, canon, aux>>
            ELSE LET s == IF hs[e.h].life = "open" THEN [hs[e.h] EXCEPT !.relax = @ \/ FaultOn(e)] ELSE hs[e.h] IN
                 /\ s.life = "open"
                 /\ (e.op = "errq" => ErrQOK(e))
                 /\ CallOK(s, cont[s.cid], e)
                 /\ LET p == CallPost(s, cont[s.cid], e) IN
                    /\ hs' = [hs EXCEPT ![e.h] = [(IF Absorbed(e) THEN [p.s EXCEPT !.relax = FALSE] ELSE p.s) EXCEPT !.flen = Get(e, "flen", -1)]]
                    /\ cont' = [cont EXCEPT ![s.cid] = p.cv]
                 /\ UNCHANGED <<files, ncid, closed, nclose, canon, aux>>

\* coarse reason for a rejection (evaluated only when Obs is not enabled)
\* (rejections whose only cause is the frame-count estimate of a headerless DWVW stream get their own reason, so that the known
\*  finding about it does not cover anything else that may go wrong with such a file)
Why(e) ==
    IF e.op = "open" /\ OpenClass(e) = "written" /\ OpenWrittenOKx(e, FileOf(e), TRUE) THEN "open:est"
    \* (a file that re-opens fine except for the sample rate it reports: the reason known findings about rate fields are keyed by)
    ELSE IF e.op = "open" /\ OpenClass(e) = "written" /\ OpenWrittenOKy(e, FileOf(e), FALSE, TRUE) THEN "open:rate"
    ELSE IF e.op = "read" /\ e.T # "r" /\ e.h >= 0 /\ hs[e.h].life = "open" /\ Has(e, "st") /\ ~hs[e.h].relax /\ ~FaultOn(e)
            /\ ReadOKx(hs[e.h], cont[hs[e.h].cid], CallOf(e), ObsOf(e), TRUE) THEN "read:est"
    ELSE IF e.op = "open" THEN "open:" \o OpenClass(e)
    ELSE IF e.op \in {"crash", "timeout"} THEN e.op \o ":" \o e.during
    ELSE IF e.op = "end" THEN "ledger"
    ELSE IF e.op = "close" THEN "close"
    ELSE IF Has(e, "st") /\ e.h >= 0 /\ hs[e.h].life = "open" THEN
         LET s == hs[e.h] o == ObsOf(e) IN
         IF ~HookOK(s, e) THEN e.op \o ":hook"
         ELSE IF e.op = "read" /\ o.guard # 1 THEN "read:guard"
         ELSE e.op
    ELSE e.op

TInit == /\ l = 1 /\ skip = FALSE /\ bad = <<>>
         /\ hs = [h \in HIDS |-> Free] /\ cont = [c \in 0..767 |-> NewContent] /\ files = [f \in FIDS |-> NoFile]
         /\ ncid = 0 /\ cfg = [idx |-> -1] /\ fault = FALSE /\ nscn = 0 /\ nev = 0
         /\ closed = <<>> /\ nclose = 0 /\ canon = <<>> /\ aux = [chexp |-> <<>>]

TNext ==
    /\ l <= Len(Tr) /\ l' = l + 1
    /\ IF Ev.op = "reset" THEN
            /\ hs' = [h \in HIDS |-> Free] /\ cont' = [c \in 0..767 |-> NewContent] /\ files' = [f \in FIDS |-> NoFile]
            /\ ncid' = 0 /\ cfg' = Ev.cfg /\ fault' = FALSE /\ skip' = FALSE /\ nscn' = nscn + 1
            /\ closed' = <<>> /\ nclose' = 0 /\ aux' = [chexp |-> <<>>]
            /\ UNCHANGED <<bad, nev, canon>>
       ELSE IF skip THEN UNCHANGED <<skip, bad, hs, cont, files, ncid, cfg, fault, closed, canon, nclose, aux, nscn, nev>>
       ELSE IF ENABLED Obs THEN
            /\ Obs /\ nev' = nev + 1
            /\ fault' = IF Absorbed(Ev) THEN FALSE ELSE (fault \/ (Ev.op = "fault" /\ Ev.at > 0))
            /\ UNCHANGED <<skip, bad, cfg, nscn>>
       ELSE /\ skip' = TRUE
            /\ bad' = Append(bad, [s |-> Ev.s, i |-> Ev.i, op |-> Ev.op, why |-> Why(Ev), idx |-> cfg.idx])
            /\ UNCHANGED <<hs, cont, files, ncid, cfg, fault, closed, canon, nclose, aux, nscn, nev>>

TSpec == TInit /\ [][TNext]_vars

Verdict == l = Len(Tr) + 1 =>
    PrintT(<<"VERDICT", ToJson([bad |-> bad, nbad |-> Len(bad), scenarios |-> nscn, events |-> nev, lines |-> Len(Tr)])>>)
Accepted == TLCGet("stats").diameter - 1 = Len(Tr)
=============================================================================
