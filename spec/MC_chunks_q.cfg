SPECIFICATION Spec
CONSTANTS
  MaxChunks = 40
  InitCap = 20
INVARIANTS TypeOK ChunkCap VisitOnce
CHECK_DEADLOCK FALSE
