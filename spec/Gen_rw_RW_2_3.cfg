SPECIFICATION Spec
CONSTANTS
  Mode = 48
  Ch = 1
  MaxFrames = 4
  MaxWrites = 3
  Depth = 3
  GEN = TRUE
  Pre = 2
  Alpha = "gen"
CONSTRAINT Bound
INVARIANTS PredAllowed Emit
