------------------------------- MODULE TraceAdpcm -------------------------------
(***************************************************************************)
(* C20, ADPCM clause: for any block bytes the library's IMA (WAV and AIFF  *)
(* layouts) and Microsoft ADPCM decoders deliver the samples of the        *)
(* reference decoders in SfAdpcm.  The driver writes a valid file of whole *)
(* blocks, overwrites the data section with random / adversarial bytes,    *)
(* dumps that section ("filedump") and reads the file through              *)
(* sf_readf_short; the comparison is done here.                            *)
(***************************************************************************)
EXTENDS SfAdpcm, SfTypes, TLC, Json, IOUtils

Tr == ndJsonDeserialize(IOEnv.TRACE)
VARIABLES l, bad, cfg, data, skip, nscn, nsamp
vars == <<l, bad, cfg, data, skip, nscn, nsamp>>

BlockBytes == CASE cfg.layout = "aiffima" -> 34 * cfg.ch
                [] OTHER -> WavBlockAlign(Rc(cfg.rate, cfg.ch))
DecodeBlock(b) == CASE cfg.layout = "wavima" -> ImaWavBlock(b, cfg.ch)
                    [] cfg.layout = "aiffima" -> ImaAiffBlock(b, cfg.ch)
                    [] OTHER -> MsBlock(b, cfg.ch)
NBlocks == Len(data) \div BlockBytes
Expected == SX!FoldLeft(LAMBDA acc, k : acc \o DecodeBlock(SubSeq(data, (k - 1) * BlockBytes + 1, k * BlockBytes)), <<>>, [k \in 1..NBlocks |-> k])

ReadOK(e) == LET exp == Expected IN
             /\ e.ret * cfg.ch = Len(exp)
             /\ e.out = exp

Init == l = 1 /\ bad = <<>> /\ cfg = [kind |-> "none"] /\ data = <<>> /\ skip = FALSE /\ nscn = 0 /\ nsamp = 0
Next ==
    /\ l <= Len(Tr) /\ l' = l + 1
    /\ LET e == Tr[l] IN
       IF e.op = "reset" THEN cfg' = e.cfg /\ data' = <<>> /\ skip' = FALSE /\ nscn' = nscn + 1 /\ UNCHANGED <<bad, nsamp>>
       ELSE IF skip THEN UNCHANGED <<bad, cfg, data, skip, nscn, nsamp>>
       ELSE IF e.op \in {"crash", "timeout"} THEN
            bad' = Append(bad, [s |-> e.s, i |-> e.i, op |-> e.op, why |-> e.op, idx |-> cfg.idx]) /\ skip' = TRUE /\ UNCHANGED <<cfg, data, nscn, nsamp>>
       ELSE IF e.op = "filedump" THEN data' = e.bytes /\ UNCHANGED <<bad, cfg, skip, nscn, nsamp>>
       ELSE IF e.op = "read" /\ e.h = 1 /\ Len(data) > 0 THEN
            (IF ReadOK(e) THEN UNCHANGED <<bad, skip>>
             ELSE bad' = Append(bad, [s |-> e.s, i |-> e.i, op |-> "read", why |-> "decode", idx |-> cfg.idx]) /\ skip' = TRUE)
            /\ nsamp' = nsamp + Len(e.out) /\ data' = <<>> /\ UNCHANGED <<cfg, nscn>>
       ELSE UNCHANGED <<bad, cfg, data, skip, nscn, nsamp>>
TSpec == Init /\ [][Next]_vars
Verdict == l = Len(Tr) + 1 =>
    PrintT(<<"VERDICT", ToJson([bad |-> bad, nbad |-> Len(bad), scenarios |-> nscn, events |-> nsamp, lines |-> Len(Tr)])>>)
Accepted == TLCGet("stats").diameter - 1 = Len(Tr)
=============================================================================
