------------------------------ MODULE SfHandle ------------------------------
(***************************************************************************)
(* One libsndfile handle as an abstract state machine.                     *)
(*                                                                         *)
(* Every public entry point is one action.  For a handle state s, the      *)
(* content cv of the file it is attached to, a call c and an observation   *)
(* o (return value, data delivered, error flag, positions and frame count  *)
(* after the call)                                                         *)
(*    XxxOK(s, cv, c, o)    says whether the specification allows o, and   *)
(*    XxxPost(s, cv, c, o)  is the successor [s, cv].                      *)
(* XxxPred(s, cv, c) is the observation the deterministic model predicts;  *)
(* the bounded models (MC_*.tla) use it to generate behaviours and check    *)
(* that Pred is always OK, the trace validator (TraceCore.tla) feeds the    *)
(* observations recorded from the real library into XxxOK.                 *)
(*                                                                         *)
(* Handle state s:                                                         *)
(*   mode     SFM_READ / SFM_WRITE / SFM_RDWR    (psf->file.mode)          *)
(*   ch, fmt, rate                               (psf->sf)                 *)
(*   B        block length in frames, gran = sample granular encoding      *)
(*   skb      seekable                                                     *)
(*   frames, rpos, wpos    (sf.frames, read_current, write_current)        *)
(*   err      error flag ( psf->error # 0 )                                *)
(*   hw       have_written,  auto = auto header update                     *)
(*   relax    TRUE when the environment is hostile (mutated input, I/O     *)
(*            fault armed): outcome sets widen as C03 / C15 allow           *)
(*   cid      identity of the content (audio store) the handle works on    *)
(* Content cv:                                                             *)
(*   val, kt  flat item sequences: kt[i] is the caller type under which    *)
(*            val[i] is known ("-" : not known yet, learnt by first read)  *)
(*   gen      bumped by every overwrite / truncate (invalidates snapshots) *)
(*   hdrN     frame count the header on disk was last updated to (-1: no)  *)
(***************************************************************************)
EXTENDS SfTypes, TLC

Rep(x, n) == [i \in 1..n |-> x]
Take(q, n) == IF n >= Len(q) THEN q ELSE SubSeq(q, 1, n)
Drop(q, n) == IF n >= Len(q) THEN <<>> ELSE SubSeq(q, n + 1, Len(q))

\* overwrite / extend q with v starting after 'at' items; a gap is filled with 'fill'
Splice(q, at, v, fill) ==
    LET pre  == IF at <= Len(q) THEN Take(q, at) ELSE q \o Rep(fill, at - Len(q))
        post == Drop(q, at + Len(v))
    IN pre \o v \o post

NewContent == [val |-> <<>>, kt |-> <<>>, gen |-> 0, hdrN |-> -1, info |-> <<>>]

Items(s, c) == IF c.unit = "f" THEN c.n * s.ch ELSE c.n
RetItems(s, c, o) == IF c.unit = "f" THEN o.ret * s.ch ELSE o.ret

\* (block encoders opened for writing keep no meaningful frame count of their own -- W64 ADPCM parks it at a huge
\*  value -- so for them the model counts the frames itself and the hook's figure is not compared)
FrObs(s) == s.gran \/ s.mode # SFM_WRITE
\* (under I/O faults a header rewrite may recompute the count from a lying length: adopted, not compared)
FrCheck(s) == FrObs(s) /\ ~s.relax
SamePos(s, o) == o.rp = s.rpos /\ o.wp = s.wpos /\ (FrCheck(s) => o.fr = s.frames)
ErrFlag(o) == o.er # 0

\* successor handle state: positions and error flag are what the (already checked) observation says
\* (hostile input can claim any count: the model caps it so that its 32 bit arithmetic stays exact; scenarios never read that far)
Adopt(s, o) == [s EXCEPT !.rpos = o.rp, !.wpos = o.wp,
                         !.frames = IF FrObs(s) THEN (IF s.relax THEN Min(o.fr, 1000000) ELSE o.fr) ELSE Max(s.frames, o.wp),
                         !.err = ErrFlag(o),
                         !.nd = IF "nd" \in DOMAIN o THEN o.nd ELSE @, !.nf = IF "nf" \in DOMAIN o THEN o.nf ELSE @,
                         !.sif = IF "sif" \in DOMAIN o THEN o.sif ELSE @, !.sfi = IF "sfi" \in DOMAIN o THEN o.sfi ELSE @,
                         !.cl = IF "cl" \in DOMAIN o THEN o.cl ELSE @]

-----------------------------------------------------------------------------
\* sf_read_short/int/float/double and sf_readf_* (c.T in s i f d; c.unit in i f)

\* ---- agreement of the four caller types on integer-coded data (C02) ----
\* Every decoder of an integer-coded encoding produces a 32 bit left-justified value L per sample: sf_read_int delivers L,
\* sf_read_short its upper 16 bits, sf_read_double (normalisation on) L / 2^31 and sf_read_float that value rounded to
\* 24 significant bits (nearest, ties to even).  L is known once the item is known under type "i", or under "s" when the
\* encoding holds no more than 16 bits.
LeftJust(sub, k, v) == IF DecWidth(sub) = 0 THEN <<FALSE, 0>>
                       ELSE IF k = "i" THEN <<TRUE, v>>
                       ELSE IF k = "s" /\ DecWidth(sub) <= 16 THEN <<TRUE, v * 65536>>
                       ELSE <<FALSE, 0>>
BitLen31(n) == IF n = 0 THEN 0 ELSE CHOOSE k \in 1..31 : n >= Pow2(k - 1) /\ (k = 31 \/ n < Pow2(k))
RoundHE(n, k) == LET q == n \div Pow2(k)  r == n % Pow2(k)  h == Pow2(k - 1) IN IF r > h \/ (r = h /\ q % 2 = 1) THEN q + 1 ELSE q
\* L / 2^sh as a double and as a float (sh = 31: normalisation on; sh = 32 - UnnormWidth: normalisation off)
DoubleOfLs(L, sh) == IF L = -2147483647 - 1 THEN <<-1, 31 - sh>> ELSE DySplit(DyNorm(L, -sh))
FloatOfLs(L, sh) == IF L = -2147483647 - 1 THEN <<-1, 31 - sh>>
               ELSE LET a == Abs(L)  b == BitLen31(a) IN
                    IF b <= 24 THEN DyNorm(L, -sh)
                    ELSE LET k == b - 24 IN DyNorm((IF L < 0 THEN -1 ELSE 1) * RoundHE(a, k), k - sh)
DoubleOfL(L) == DoubleOfLs(L, 31)
FloatOfL(L) == FloatOfLs(L, 31)
\* ---- float / double data read through the integer types (C02) ----
\* With float-to-int scaling off (the default) sf_read_int / sf_read_short deliver the nearest integer to the stored value (ties to
\* even); with clipping on, values at or beyond the integer extremes saturate there (the upper limits are INT_MAX and 0x7FFF), with
\* clipping off the result for such values is not specified.  The stored value d = <<m, e>> is known exactly (dyadic).
DyBits(d) == BitLen31(Abs(d[1])) + d[2]                     \* |x| < 2^DyBits, and |x| >= 2^(DyBits - 1) when x # 0
NearestInt(d) ==                                            \* for |x| < 2^31
    LET m == d[1] e == d[2] a == Abs(m) sg == IF m < 0 THEN -1 ELSE 1 IN
    IF m = 0 THEN 0 ELSE IF e >= 0 THEN m * Pow2(e)
    ELSE IF DyBits(d) < 0 THEN 0                            \* |x| < 1/2
    ELSE IF DyBits(d) = 0 THEN (IF a = 1 THEN 0 ELSE sg)     \* 1/2 <= |x| < 1: exactly 1/2 goes to the even neighbour 0
    ELSE sg * RoundHE(a, -e)
FloatToIntOK(T, d, clip, x) ==
    LET bits == IF T = "i" THEN 32 ELSE 16
        hi == IF T = "i" THEN 2147483647 ELSE 32767  lo == -hi - 1 IN
    IF Len(d) # 2 \/ d[2] < -30 \/ d[2] > 31 THEN TRUE          \* (split mantissas and extreme exponents are not generated)
    ELSE IF DyBits(d) >= bits THEN (clip => x = (IF d[1] > 0 THEN hi ELSE lo))       \* |x| >= 2^(bits-1)
    ELSE LET n == NearestInt(d) IN IF n > hi THEN (clip => x = hi) ELSE x = n

XTypeOK(s, c, k, v, x) ==
    LET lj == LeftJust(Sub(s.fmt), k, v) IN
    IF Sub(s.fmt) \in {S_FLOAT, S_DOUBLE} /\ k \in {"f", "d"} /\ c.T \in {"s", "i"} THEN
         (("dy" \in DOMAIN c /\ c.dy /\ "sfi" \in DOMAIN s /\ s.sfi = 0 /\ (Sub(s.fmt) = S_FLOAT \/ k = "d")) => FloatToIntOK(c.T, v, s.cl = 1, x))
    ELSE IF ~lj[1] THEN TRUE
    ELSE CASE c.T = "i" -> x = lj[2]
           [] c.T = "s" -> x = lj[2] \div 65536
           [] c.T = "f" -> ("dy" \in DOMAIN c /\ c.dy) =>
                              IF s.nf = 1 THEN x = FloatOfL(lj[2])
                              ELSE (UnnormWidth(s.fmt) > 0 => x = FloatOfLs(lj[2], 32 - UnnormWidth(s.fmt)))
           [] c.T = "d" -> ("dy" \in DOMAIN c /\ c.dy) =>
                              IF s.nd = 1 THEN x = DoubleOfL(lj[2])
                              ELSE (UnnormWidth(s.fmt) > 0 => x = DoubleOfLs(lj[2], 32 - UnnormWidth(s.fmt)))
           [] OTHER -> TRUE

ItemOK(s, c, k, v, x) == IF k = c.T THEN v = x ELSE IF k = "-" THEN TRUE ELSE XTypeOK(s, c, k, v, x)

EstFrames(s) == Major(s.fmt) = M_RAW /\ Sub(s.fmt) \in {S_DWVW12, S_DWVW16, S_DWVW24, S_DWVWN}

ReadInvalid(s, c) == c.n < 0 \/ s.mode = SFM_WRITE \/ (c.unit = "i" /\ c.n % s.ch # 0)

\* est = TRUE evaluates the clause with deviation D20 granted (used only to name the reason of a rejection, see TraceCore!Why)
ReadOKx(s, cv, c, o, est) ==
    /\ o.guard = 1                                   \* nothing outside the requested region is touched
    /\ IF c.n = 0 THEN o.ret = 0 /\ SamePos(s, o) /\ ErrFlag(o) = s.err
       ELSE IF ReadInvalid(s, c) THEN o.ret = 0 /\ ErrFlag(o) /\ SamePos(s, o)
       ELSE IF s.rpos >= s.frames THEN
            \* end of data: 0, whole request zero filled, no error
            o.ret = 0 /\ ~ErrFlag(o) /\ o.tz = 1 /\ SamePos(s, o)
       ELSE LET want == Min(Items(s, c), (s.frames - s.rpos) * s.ch)
                ri   == RetItems(s, c, o)
                base == s.rpos * s.ch
            IN /\ IF s.relax THEN ri >= 0 /\ ri <= want
                  \* (a headerless DWVW bit stream has no frame count; the one reported is an estimate from the file length.  With est: reads
                  \*  deliver at least the frames really written -- when the model knows how many, s.nreal -- and may stop before the estimate)
                  ELSE IF est /\ EstFrames(s) THEN /\ ri >= 0 /\ ri <= want /\ ~ErrFlag(o)
                                            /\ (("nreal" \in DOMAIN s /\ s.nreal >= 0) => ri >= Min(want, Max(0, s.nreal - s.rpos) * s.ch))
                  ELSE ri = want /\ ~ErrFlag(o)
               /\ o.rp = s.rpos + ri \div s.ch /\ o.wp = s.wpos /\ (FrCheck(s) => o.fr = s.frames)
               /\ o.outn = ri                                   \* exactly the returned number of items is delivered
               /\ (~s.relax) => Len(o.out) = ri
               \* (under faults a short transfer can leave the stream misaligned: no data clause then)
               \* (written as a set comparison so that TLC evaluates it as a value: a disjunction under \A inside ENABLED branches)
               /\ s.relax \/ {i \in 1..ri : base + i <= Len(cv.kt) /\ ~ItemOK(s, c, cv.kt[base + i], cv.val[base + i], o.out[i])} = {}

ReadOK(s, cv, c, o) == ReadOKx(s, cv, c, o, FALSE)

ReadPost(s, cv, c, o) ==
    IF c.n <= 0 \/ ReadInvalid(s, c) \/ s.rpos >= s.frames \/ s.relax THEN [s |-> Adopt(s, o), cv |-> cv]
    ELSE LET ri == RetItems(s, c, o)  base == s.rpos * s.ch
             \* an item whose left-justified code is already known keeps that (it determines the value under every type)
             keep(i) == base + i <= Len(cv.kt)
                        /\ \/ LeftJust(Sub(s.fmt), cv.kt[base + i], cv.val[base + i])[1]
                           \/ (Sub(s.fmt) \in {S_FLOAT, S_DOUBLE} /\ cv.kt[base + i] \in {"f", "d"} /\ c.T \in {"s", "i"})   \* the float value says more
             v2 == Splice(cv.val, base, [i \in 1..ri |-> IF keep(i) THEN cv.val[base + i] ELSE o.out[i]], 0)
             k2 == Splice(cv.kt, base, [i \in 1..ri |-> IF keep(i) THEN cv.kt[base + i] ELSE c.T], "-")
         IN [s |-> Adopt(s, o), cv |-> [cv EXCEPT !.val = v2, !.kt = k2]]

ReadPred(s, cv, c) ==
    LET same == [rp |-> s.rpos, wp |-> s.wpos, fr |-> s.frames, guard |-> 1, tz |-> 1, out |-> <<>>, outn |-> 0] IN
    IF c.n = 0 THEN same @@ [ret |-> 0, er |-> IF s.err THEN 1 ELSE 0]
    ELSE IF ReadInvalid(s, c) THEN same @@ [ret |-> 0, er |-> 1]
    ELSE IF s.rpos >= s.frames THEN same @@ [ret |-> 0, er |-> 0]
    ELSE LET want == Min(Items(s, c), (s.frames - s.rpos) * s.ch)  base == s.rpos * s.ch IN
         [ret |-> IF c.unit = "f" THEN want \div s.ch ELSE want, er |-> 0, guard |-> 1, tz |-> 0,
          out |-> SubSeq(cv.val, base + 1, base + want), outn |-> want,
          rp |-> s.rpos + want \div s.ch, wp |-> s.wpos, fr |-> s.frames]

-----------------------------------------------------------------------------
\* sf_read_raw: bytes of the data section (sample granular encodings); the model only follows counts and positions
RawReadOK(s, cv, c, o) ==
    LET bw == IF s.gran THEN ByteWidth(Sub(s.fmt)) * s.ch ELSE 0 IN
    /\ o.guard = 1
    /\ IF c.n = 0 THEN o.ret = 0 /\ SamePos(s, o)
       ELSE IF s.mode = SFM_WRITE THEN o.ret = 0 /\ ErrFlag(o) /\ SamePos(s, o)
       ELSE IF c.n < 0 \/ s.rpos >= s.frames THEN o.ret = 0 /\ SamePos(s, o)
       ELSE IF bw = 0 THEN o.ret >= 0 /\ o.ret <= c.n /\ o.wp = s.wpos     \* raw access is only specified for sample granular encodings
       ELSE IF c.n % bw # 0 THEN o.ret = 0 /\ SamePos(s, o) /\ ErrFlag(o)
       ELSE LET want == Min(c.n, (s.frames - s.rpos) * bw) IN
            /\ IF s.relax THEN o.ret >= 0 /\ o.ret <= want ELSE o.ret = want /\ ~ErrFlag(o)
            /\ o.rp = s.rpos + o.ret \div bw /\ o.wp = s.wpos /\ (FrCheck(s) => o.fr = s.frames)

-----------------------------------------------------------------------------
\* sf_write_* / sf_writef_*

WriteInvalid(s, c) == c.n < 0 \/ s.mode = SFM_READ \/ (c.unit = "i" /\ c.n % s.ch # 0)

WriteOK(s, cv, c, o) ==
    IF c.n = 0 THEN o.ret = 0 /\ SamePos(s, o) /\ ErrFlag(o) = s.err
    ELSE IF WriteInvalid(s, c) THEN o.ret = 0 /\ ErrFlag(o) /\ SamePos(s, o)
    ELSE LET wi == RetItems(s, c, o) IN
         /\ IF s.relax THEN wi >= 0 /\ wi <= Items(s, c) ELSE wi = Items(s, c) /\ ~ErrFlag(o)
         /\ o.wp = s.wpos + wi \div s.ch
         /\ FrCheck(s) => o.fr = Max(s.frames, o.wp)
         /\ o.rp = s.rpos

WritePost(s, cv, c, o) ==
    IF c.n <= 0 \/ WriteInvalid(s, c) THEN [s |-> Adopt(s, o), cv |-> cv]
    ELSE LET wi   == RetItems(s, c, o)
             base == s.wpos * s.ch
             \* integers written into a float / double file (scaling off, the default): the integer v is stored as the floating point
             \* number v, exactly when |v| < 2^24; known under the file's own type as the dyadic <<v, 0>> (needs dyadic logging)
             i2f  == c.T \in {"s", "i"} /\ Sub(s.fmt) \in {S_FLOAT, S_DOUBLE} /\ "dy" \in DOMAIN c /\ c.dy /\ "sif" \in DOMAIN s /\ s.sif = 0
                     /\ \A i \in 1..Len(c.v) : c.v[i] > -16777216 /\ c.v[i] < 16777216
             \* floating point numbers written into an integer-lossless encoding with normalisation off for the caller's type: an integer
             \* v inside the range passes through unscaled (C02), i.e. the decoder's left-justified value becomes v * 2^(32-u), u as for
             \* reads (UnnormWidth); v has to be a multiple of 2^(u-w) where the decoder's unit is finer than the stored width w
             uw   == UnnormWidth(s.fmt)
             iw   == IntWidth(Sub(s.fmt))
             f2i  == c.T \in {"f", "d"} /\ iw > 0 /\ uw >= iw /\ "dy" \in DOMAIN c /\ c.dy
                     /\ (IF c.T = "f" THEN s.nf = 0 ELSE s.nd = 0)
                     /\ \A i \in 1..Len(c.v) : /\ Len(c.v[i]) = 2 /\ c.v[i][2] >= 0
                                               /\ \/ (DyBits(c.v[i]) <= uw - 1 /\ (c.v[i][1] * Pow2(c.v[i][2])) % Pow2(uw - iw) = 0)
                                                  \/ (DyBits(c.v[i]) >= uw /\ s.cl = 1)     \* |v| >= 2^(u-1) with clipping on: saturates (C02)
             \* integers written into a float / double file with SFC_SET_SCALE_INT_FLOAT_WRITE on: a short v is stored as v / 2^15, an int
             \* v as v / 2^31 (in a float file rounded to 24 significant bits, as FloatOfL)
             i2fs == c.T \in {"s", "i"} /\ Sub(s.fmt) \in {S_FLOAT, S_DOUBLE} /\ "dy" \in DOMAIN c /\ c.dy /\ "sif" \in DOMAIN s /\ s.sif = 1
             tag  == IF Lossless(c.T, Sub(s.fmt), c.v) THEN c.T ELSE IF i2f \/ i2fs THEN (IF Sub(s.fmt) = S_FLOAT THEN "f" ELSE "d") ELSE IF f2i THEN "i" ELSE "-"
             wv   == IF Lossless(c.T, Sub(s.fmt), c.v) THEN c.v
                     ELSE IF i2f THEN [i \in 1..Len(c.v) |-> DyNorm(c.v[i], 0)]
                     ELSE IF i2fs THEN [i \in 1..Len(c.v) |-> IF c.T = "s" THEN DyNorm(c.v[i], -15)
                                                             ELSE IF Sub(s.fmt) = S_FLOAT THEN FloatOfL(c.v[i]) ELSE DoubleOfL(c.v[i])]
                     ELSE IF f2i THEN [i \in 1..Len(c.v) |->
                                          IF DyBits(c.v[i]) <= uw - 1 THEN c.v[i][1] * Pow2(c.v[i][2]) * Pow2(32 - uw)
                                          ELSE IF c.v[i][1] > 0 THEN 2147483647 - (Pow2(32 - iw) - 1)           \* the largest w-bit code, left justified
                                          ELSE -2147483647 - 1]
                     ELSE c.v
             over == s.wpos < s.frames
         IN [s  |-> [Adopt(s, o) EXCEPT !.hw = TRUE],
             cv |-> [cv EXCEPT !.val = Splice(cv.val, base, Take(wv, wi), 0),
                               !.kt  = Splice(cv.kt, base, Rep(tag, wi), "-"),
                               !.gen = IF over THEN cv.gen + 1 ELSE cv.gen,
                               !.hdrN = IF s.auto THEN o.fr ELSE IF over THEN cv.hdrN ELSE cv.hdrN]]

WritePred(s, cv, c) ==
    LET same == [rp |-> s.rpos, wp |-> s.wpos, fr |-> s.frames] IN
    IF c.n = 0 THEN same @@ [ret |-> 0, er |-> IF s.err THEN 1 ELSE 0]
    ELSE IF WriteInvalid(s, c) THEN same @@ [ret |-> 0, er |-> 1]
    ELSE LET nw == s.wpos + Items(s, c) \div s.ch IN
         [ret |-> c.n, er |-> 0, rp |-> s.rpos, wp |-> nw, fr |-> Max(s.frames, nw)]

-----------------------------------------------------------------------------
\* sf_seek (D3: a plain whence in RDWR mode is relative to the write pointer and moves both pointers)

SeekWhich(c) == (c.wh \div 16) * 16
SeekBase(c)  == c.wh % 16

SeekMalformed(s, c) ==
    LET which == SeekWhich(c) base == SeekBase(c) IN
    \/ c.wh < 0 \/ c.wh > 50
    \/ which \notin {0, SFM_READ, SFM_WRITE, SFM_RDWR}
    \/ base > 2
    \/ (which = SFM_WRITE /\ s.mode = SFM_READ) \/ (which = SFM_READ /\ s.mode = SFM_WRITE)
    \/ (which = SFM_RDWR /\ base # SEEK_SET)

SeekIsQuery(s, c) == SeekBase(c) = SEEK_CUR /\ c.off = 0 /\ (SeekWhich(c) # 0 \/ s.mode # SFM_RDWR)

SeekCur(s, c) == LET which == SeekWhich(c) IN
    IF which = SFM_READ THEN s.rpos ELSE IF which = SFM_WRITE THEN s.wpos
    ELSE IF s.mode = SFM_READ THEN s.rpos ELSE s.wpos

SeekTarget(s, c) == LET base == SeekBase(c) IN
    IF base = SEEK_SET THEN c.off ELSE IF base = SEEK_CUR THEN SeekCur(s, c) + c.off ELSE s.frames + c.off

SeekNewMode(s, c) == IF SeekWhich(c) # 0 THEN SeekWhich(c) ELSE s.mode

SeekOutOfRange(s, c) == LET k == SeekTarget(s, c) IN k < 0 \/ (s.mode = SFM_READ /\ k > s.frames)

\* encodings for which a correctly formed, in-range seek may still be refused (C06 allows "-1 with an error")
SeekMayRefuse(s, c) ==
    \/ Sub(s.fmt) \in {S_DWVW12, S_DWVW16, S_DWVW24, S_DWVWN}
    \/ (~s.gran /\ SeekNewMode(s, c) # SFM_READ)          \* block encoders cannot reposition their output
    \/ (~s.gran /\ s.mode # SFM_READ)
    \/ s.relax

SeekFailObs(s, o) == o.ret = -1 /\ ErrFlag(o) /\ SamePos(s, o)

SeekOK(s, cv, c, o) ==
    IF ~s.skb \/ SeekMalformed(s, c) THEN SeekFailObs(s, o)
    ELSE IF SeekIsQuery(s, c) THEN o.ret = SeekCur(s, c) /\ ~ErrFlag(o) /\ SamePos(s, o)
    ELSE IF SeekOutOfRange(s, c) THEN SeekFailObs(s, o)
    ELSE LET k == SeekTarget(s, c) nm == SeekNewMode(s, c) IN
         \/ /\ o.ret = k /\ ~ErrFlag(o) /\ (FrCheck(s) => o.fr = s.frames)
            /\ o.rp = (IF nm \in {SFM_READ, SFM_RDWR} THEN k ELSE s.rpos)
            /\ o.wp = (IF nm \in {SFM_WRITE, SFM_RDWR} THEN k ELSE s.wpos)
         \/ SeekMayRefuse(s, c) /\ SeekFailObs(s, o)

\* D21: no property says what a block encoder (not sample granular) opened write-only does with its output after its write
\* pointer has been moved (C08 quantifies over RDWR handles of sample-granular encodings; C06 / C09 only fix the return value):
\* the library may refuse such a seek, and when it accepts one the handle is followed with the widened clauses from then on
SeekPost(s, cv, c, o) ==
    LET moved == ~s.gran /\ s.mode = SFM_WRITE /\ o.ret >= 0 /\ o.wp # s.wpos IN
    [s |-> [Adopt(s, o) EXCEPT !.relax = @ \/ moved], cv |-> cv]

SeekPred(s, cv, c) ==
    LET fail == [ret |-> -1, er |-> 1, rp |-> s.rpos, wp |-> s.wpos, fr |-> s.frames] IN
    IF ~s.skb \/ SeekMalformed(s, c) THEN fail
    ELSE IF SeekIsQuery(s, c) THEN [ret |-> SeekCur(s, c), er |-> 0, rp |-> s.rpos, wp |-> s.wpos, fr |-> s.frames]
    ELSE IF SeekOutOfRange(s, c) THEN fail
    ELSE LET k == SeekTarget(s, c) nm == SeekNewMode(s, c) IN
         [ret |-> k, er |-> 0, fr |-> s.frames,
          rp |-> IF nm \in {SFM_READ, SFM_RDWR} THEN k ELSE s.rpos,
          wp |-> IF nm \in {SFM_WRITE, SFM_RDWR} THEN k ELSE s.wpos]

-----------------------------------------------------------------------------
\* SFC_FILE_TRUNCATE (needs a real descriptor: D7, the virtual-I/O route cannot truncate)
TruncOK(s, cv, c, o) ==
    IF s.mode = SFM_READ THEN o.ret # 0 /\ SamePos(s, o)
    ELSE IF c.n < 0 THEN o.ret # 0 /\ SamePos(s, o)
    ELSE \/ /\ o.ret = 0 /\ ~ErrFlag(o) /\ o.fr = c.n /\ o.wp = c.n
            /\ o.rp = (IF s.mode = SFM_RDWR THEN c.n ELSE s.rpos)
         \/ s.relax /\ o.ret # 0

TruncPost(s, cv, c, o) ==
    IF o.ret # 0 /\ SamePos(s, o) THEN [s |-> Adopt(s, o), cv |-> cv]
    ELSE LET n == o.fr * s.ch IN
         [s |-> Adopt(s, o),
          cv |-> [cv EXCEPT !.val = IF n <= Len(cv.val) THEN Take(cv.val, n) ELSE cv.val \o Rep(0, n - Len(cv.val)),
                            !.kt  = IF n <= Len(cv.kt) THEN Take(cv.kt, n) ELSE cv.kt \o Rep("-", n - Len(cv.kt)),
                            !.gen = cv.gen + 1, !.hdrN = -1]]

TruncPred(s, cv, c) ==
    IF s.mode = SFM_READ \/ c.n < 0 THEN [ret |-> 1, er |-> IF s.mode = SFM_READ THEN 0 ELSE 1, rp |-> s.rpos, wp |-> s.wpos, fr |-> s.frames]
    ELSE [ret |-> 0, er |-> 0, fr |-> c.n, wp |-> c.n, rp |-> IF s.mode = SFM_RDWR THEN c.n ELSE s.rpos]

-----------------------------------------------------------------------------
\* sf_command with a NULL data pointer: header update, option setters/getters.  None of them moves a pointer.
CmdOK(s, cv, c, o) ==
    /\ SamePos(s, o)
    /\ CASE c.name = "UPDATE_HEADER_NOW" -> o.ret = 0
         [] c.name = "SET_UPDATE_HEADER_AUTO" -> o.ret = (IF c.val # 0 THEN 1 ELSE 0)
         [] OTHER -> TRUE

CmdPost(s, cv, c, o) ==
    CASE c.name = "UPDATE_HEADER_NOW" -> [s |-> Adopt(s, o), cv |-> [cv EXCEPT !.hdrN = IF s.mode # SFM_READ /\ s.hw THEN s.frames ELSE cv.hdrN]]
      [] c.name = "SET_UPDATE_HEADER_AUTO" -> [s |-> [Adopt(s, o) EXCEPT !.auto = (c.val # 0)], cv |-> cv]
      [] OTHER -> [s |-> Adopt(s, o), cv |-> cv]

\* SFC_CALC_* / SFC_GET_SIGNAL_MAX: queries -- position, frame count untouched (C17, C18)
\* (a hostile file may claim more frames than it holds: the scan cannot seek back then, only the bounds clause remains)
CalcOK(s, cv, c, o) == (s.relax \/ SamePos(s, o)) /\ o.guard = 1

-----------------------------------------------------------------------------
\* C04 / C11: what a reader may report for a file that holds N accepted frames of block length B
FramesAfterClose(fmt, ch, B, N, F) ==
    \/ F = N
    \/ (B > 1 /\ N < F /\ F < N + B)
    \/ (B = 1 /\ PadsOdd(fmt) /\ F = N + 1 /\ (N * ch * ByteWidth(Sub(fmt))) % 2 = 1)      \* one pad frame, only for odd byte totals
\* crash image taken when the header said hdrN frames: whole blocks only
\* (an encoder may also flush its partial block when the header is updated -- SDS does -- and report every frame)
FramesInImage(B, hdrN, F) == F = (hdrN \div B) * B \/ F = hdrN

InfoMatchesX(fmt, ch, rate, info, anyrate) ==
    /\ info.ch = ch
    /\ Major(info.fmt) = Major(fmt) /\ Sub(info.fmt) = Sub(fmt)
    /\ MultiByte(Sub(fmt)) => EffOrder(info.fmt) = EffOrder(fmt)      \* byte order where the container records it
    /\ (ExactRate(fmt) /\ ~anyrate) => info.rate = rate
InfoMatches(fmt, ch, rate, info) == InfoMatchesX(fmt, ch, rate, info, FALSE)
=============================================================================
