------------------------------- MODULE SfConv -------------------------------
(***************************************************************************)
(* C02: the documented sample conversion rules, exact.                     *)
(*  integers: the most significant bit stays the most significant bit      *)
(*     (widening appends zero bits, narrowing truncates), unsigned 8 bit   *)
(*     files store code + 128;                                             *)
(*  float/double reads of w bit integer data: code / 2^(w-1) with          *)
(*     normalisation on, the code itself with normalisation off (as held   *)
(*     in the library's 32 bit intermediate for 24 bit data);              *)
(*  float/double writes with normalisation on: nearest integer (ties to    *)
(*     even) to x * (2^(w-1) - 1); with clipping the scale is 2^(w-1) and  *)
(*     the result saturates (deviation D1).                                *)
(* Floating point values are exact dyadics <<m, e>> = m * 2^e.             *)
(***************************************************************************)
EXTENDS SfTypes

\* caller integer v of type T ("s" 16 bit, "i" 32 bit) -> stored w bit code
CodeOfInt(T, w, v) == LET tb == TypeBits(T) IN IF w >= tb THEN v * Pow2(w - tb) ELSE v \div Pow2(tb - w)
\* stored w bit code -> caller integer of type T
CodeToInt(T, w, c) == LET tb == TypeBits(T) IN IF tb >= w THEN c * Pow2(tb - w) ELSE c \div Pow2(w - tb)

\* little endian byte k of a two's complement code (floor division and modulus do the sign extension)
ByteLE(c, k) == (c \div Pow2(8 * k)) % 256
BytesOf(c, nbytes, big) == [k \in 1..nbytes |-> IF big THEN ByteLE(c, nbytes - k) ELSE ByteLE(c, k - 1)]
\* 32 bit pattern (given as a signed 32 bit integer) to bytes: same thing
SignedOf(bytes, nbytes, big) ==
    LET b(k) == IF big THEN bytes[nbytes - k] ELSE bytes[k + 1]           \* b(0) = least significant
        top == b(nbytes - 1)
        mag == IF nbytes = 1 THEN 0 ELSE IF nbytes = 2 THEN b(0) ELSE IF nbytes = 3 THEN b(0) + 256 * b(1) ELSE b(0) + 256 * b(1) + 65536 * b(2)
    IN (IF top >= 128 THEN top - 256 ELSE top) * Pow2(8 * (nbytes - 1)) + mag

\* float/double read of a w bit code: exact dyadic
ValOfFloat(w, c, norm) == IF norm THEN DyNorm(c, -(w - 1)) ELSE DyNorm(c, 0)

\* round half to even of n / 2^k (k >= 1)
RHE(n, k) == LET q == n \div Pow2(k)  r == n % Pow2(k)  h == Pow2(k - 1) IN
             IF r > h THEN q + 1 ELSE IF r < h THEN q ELSE IF q % 2 = 0 THEN q ELSE q + 1
\* float/double write (normalisation on, clipping off) of x = j / 2^(w-1), w <= 16: nearest integer to x * (2^(w-1) - 1)
CodeOfGrid(w, j) == RHE(j * (Pow2(w - 1) - 1), w - 1)
\* with clipping on: scale 2^(w-1), saturate
CodeOfGridClip(w, j) == IF j >= Pow2(w - 1) THEN Pow2(w - 1) - 1 ELSE IF j < -Pow2(w - 1) THEN -Pow2(w - 1) ELSE j
=============================================================================
