------------------------------- MODULE SfAdpcm -------------------------------
(***************************************************************************)
(* Reference block decoders (C20): IMA ADPCM in the WAV/W64 block layout   *)
(* and in the AIFF ("ima4") layout, and Microsoft ADPCM.  Written from the *)
(* published algorithms: the IMA step table of 89 entries and the index    *)
(* adjustment table; the MS adaptation table and the seven standard        *)
(* coefficient pairs.  A block is a sequence of bytes; the result is the   *)
(* interleaved sequence of decoded 16 bit samples.                         *)
(* Header fields out of range (IMA step index > 88, MS predictor >= 7) are *)
(* clamped / replaced by 0 as the library documents in its log (D6).       *)
(***************************************************************************)
EXTENDS Integers, Sequences

SX == INSTANCE SequencesExt

StepTab == << 7, 8, 9, 10, 11, 12, 13, 14, 16, 17, 19, 21, 23, 25, 28, 31, 34, 37, 41, 45,
  50, 55, 60, 66, 73, 80, 88, 97, 107, 118, 130, 143, 157, 173, 190, 209, 230, 253, 279, 307,
  337, 371, 408, 449, 494, 544, 598, 658, 724, 796, 876, 963, 1060, 1166, 1282, 1411, 1552, 1707, 1878, 2066,
  2272, 2499, 2749, 3024, 3327, 3660, 4026, 4428, 4871, 5358, 5894, 6484, 7132, 7845, 8630, 9493, 10442, 11487, 12635, 13899,
  15289, 16818, 18500, 20350, 22385, 24623, 27086, 29794, 32767 >>
IdxAdj == << -1, -1, -1, -1, 2, 4, 6, 8, -1, -1, -1, -1, 2, 4, 6, 8 >>

Clamp(v, lo, hi) == IF v < lo THEN lo ELSE IF v > hi THEN hi ELSE v
S16(u) == IF u >= 32768 THEN u - 65536 ELSE u
Bit(c, k) == (c \div k) % 2

\* one nibble of the IMA decoder: state [p : predictor, x : step index]
StepNib(s, c) ==
    LET step == StepTab[s.x + 1]
        d3 == step \div 8 + (IF Bit(c, 1) = 1 THEN step \div 4 ELSE 0) + (IF Bit(c, 2) = 1 THEN step \div 2 ELSE 0) + (IF Bit(c, 4) = 1 THEN step ELSE 0)
        diff == IF c >= 8 THEN -d3 ELSE d3
    IN [p |-> Clamp(s.p + diff, -32768, 32767), x |-> Clamp(s.x + IdxAdj[c + 1], 0, 88)]

DecodeNibs(s0, nibs, emitFirst) ==
    LET acc(a, c) == LET t == StepNib(a.s, c) IN [s |-> t, out |-> Append(a.out, t.p)]
    IN SX!FoldLeft(acc, [s |-> s0, out |-> IF emitFirst THEN <<s0.p>> ELSE <<>>], nibs).out

Interleave(chans, n) == [i \in 1..(n * Len(chans)) |-> chans[((i - 1) % Len(chans)) + 1][((i - 1) \div Len(chans)) + 1]]

\* ---- WAV / W64 layout: per channel a 4 byte header (predictor LE, step index, reserved), then groups of 4 bytes per channel,
\*      low nibble first; the header predictor is the first sample of the block
\* nibble of sample k (1-based, after the header sample) of channel c
ImaWavNib(b, ch, c, k) ==
    LET g == (k - 1) \div 8  j == (k - 1) % 8
        by == b[4 * ch + g * 4 * ch + (c - 1) * 4 + j \div 2 + 1]
    IN IF j % 2 = 0 THEN by % 16 ELSE by \div 16
ImaWavBlock(b, ch) ==
    LET groups == (Len(b) - 4 * ch) \div (4 * ch)
        \* nibbles in output (interleaved) order
        order == [j \in 1..(8 * groups * ch) |-> ImaWavNib(b, ch, ((j - 1) % ch) + 1, ((j - 1) \div ch) + 1)]
        s0(c) == [p |-> S16(b[(c - 1) * 4 + 1] + 256 * b[(c - 1) * 4 + 2]), x |-> Clamp(b[(c - 1) * 4 + 3], 0, 88)]
        acc(a, n) == LET c == (a.k % ch) + 1  t == StepNib(a.st[c], n) IN
                     [st |-> [a.st EXCEPT ![c] = t], out |-> Append(a.out, t.p), k |-> a.k + 1]
        init == [st |-> [c \in 1..ch |-> s0(c)], out |-> [c \in 1..ch |-> s0(c).p], k |-> 0]
    IN SX!FoldLeft(acc, init, order).out

\* ---- AIFF layout: per channel a 34 byte packet: 2 byte header (upper 9 bits predictor, lower 7 bits step index), 32 bytes = 64
\*      samples, low nibble first; no sample is emitted for the header
ImaAiffBlock(b, ch) ==
    LET chanOut(c) ==
          LET o == (c - 1) * 34
              p0 == S16(b[o + 1] * 256 + (b[o + 2] \div 128) * 128)
              x0 == Clamp(b[o + 2] % 128, 0, 88)
              nibs == [i \in 1..64 |-> LET by == b[o + 2 + (i + 1) \div 2] IN IF i % 2 = 1 THEN by % 16 ELSE by \div 16]
          IN DecodeNibs([p |-> p0, x |-> x0], nibs, FALSE)
        outs == [c \in 1..ch |-> chanOut(c)]
    IN Interleave(outs, 64)
\* (in the AIFF layout the library adjusts the step index before it computes the difference; the difference uses the step of
\*  the old index in both layouts, so the order does not matter)

\* ---- Microsoft ADPCM
MsAdapt == << 230, 230, 230, 230, 307, 409, 512, 614, 768, 614, 512, 409, 307, 230, 230, 230 >>
MsC1 == << 256, 512, 0, 192, 240, 460, 392 >>
MsC2 == << 0, -256, 0, 64, 0, -208, -232 >>
FloorDiv256(v) == v \div 256                         \* arithmetic shift right by 8
Wrap16(v) == S16(v % 65536)                          \* the scale factor is kept in 16 bits (D19)
MsBlock(b, ch) ==
    LET bp(c) == IF b[c] >= 7 THEN 0 ELSE b[c]
        hdr == IF ch = 1 THEN 7 ELSE 14
        d0(c) == IF ch = 1 THEN S16(b[2] + 256 * b[3]) ELSE S16(b[1 + 2 * c] + 256 * b[2 + 2 * c])
        s1(c) == IF ch = 1 THEN S16(b[4] + 256 * b[5]) ELSE S16(b[5 + 2 * c] + 256 * b[6 + 2 * c])      \* newer sample
        s2(c) == IF ch = 1 THEN S16(b[6] + 256 * b[7]) ELSE S16(b[9 + 2 * c] + 256 * b[10 + 2 * c])     \* older sample
        nibs == [i \in 1..(2 * (Len(b) - hdr)) |-> LET by == b[hdr + (i + 1) \div 2] IN IF i % 2 = 1 THEN by \div 16 ELSE by % 16]
        \* state per channel: [a : newest, o : previous, d : idelta]; nibbles alternate between the channels
        step(st, c, n) ==
            LET nd == LET t == Wrap16(FloorDiv256(MsAdapt[n + 1] * st.d)) IN IF t < 16 THEN 16 ELSE t
                sn == IF n >= 8 THEN n - 16 ELSE n
                pred == FloorDiv256(st.a * MsC1[bp(c) + 1] + st.o * MsC2[bp(c) + 1])
                cur == Clamp(sn * st.d + pred, -32768, 32767)
            IN [a |-> cur, o |-> st.a, d |-> nd]
        acc(a, n) ==
            LET c == IF ch = 1 THEN 1 ELSE (a.k % 2) + 1
                t == step(a.st[c], c, n)
            IN [st |-> [a.st EXCEPT ![c] = t], out |-> Append(a.out, t.a), k |-> a.k + 1]
        init == [st |-> [c \in 1..ch |-> [a |-> s1(c), o |-> s2(c), d |-> d0(c)]],
                 out |-> IF ch = 1 THEN <<s2(1), s1(1)>> ELSE <<s2(1), s2(2), s1(1), s1(2)>>, k |-> 0]
    IN SX!FoldLeft(acc, init, nibs).out
=============================================================================
