------------------------------- MODULE MC_conv -------------------------------
(* identities of the pure definitions (C20, C02): evaluated once by TLC as ASSUME-like invariants of a one-state model *)
EXTENDS SfG711, SfConv, TLC
VARIABLE x
Init == x = 0
Next == x' = x
Spec == Init /\ [][Next]_x
G711Ids == UEncDecId /\ AEncDecId
\* decode o encode returns the level of the decision interval containing the input: monotone, idempotent
UMonotone == \A v \in -32768..32766 : UDecode(UEncode16(v)) <= UDecode(UEncode16(v + 1))
AMonotone == \A v \in -32768..32766 : ADecode(AEncode16(v)) <= ADecode(AEncode16(v + 1))
\* (mu-law has two codes for zero: small negative inputs give 0x7F, whose value 0 re-encodes as 0xFF -- deviation D9)
UIdem == \A v \in {-32768, -32767, -1, 0, 1, 2, 3, 4, 5, 100, 1000, 32767} \cup {64 * k : k \in -500..500} :
            UEncode16(UDecode(UEncode16(v))) = UEncode16(v) \/ UEncode16(v) = 127
AIdem == \A v \in {-32768, -32767, -1, 0, 1, 15, 16, 17, 100, 1000, 32767} \cup {64 * k : k \in -500..500} : AEncode16(ADecode(AEncode16(v))) = AEncode16(v)
IntRules == /\ \A v \in -32768..32767 : CodeToInt("s", 16, CodeOfInt("s", 16, v)) = v
            /\ \A v \in -128..127 : CodeOfInt("s", 8, CodeToInt("s", 8, v)) = v
            /\ \A v \in {-32768, -1, 0, 1, 255, 256, 32767} : CodeOfInt("i", 16, CodeToInt("i", 16, v)) = v
            /\ \A v \in -32768..32766 : CodeOfInt("s", 8, v) <= CodeOfInt("s", 8, v + 1)          \* narrowing is monotone (truncation)
=============================================================================
