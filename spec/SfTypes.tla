------------------------------ MODULE SfTypes ------------------------------
(***************************************************************************)
(* Constants of the public libsndfile API (include/sndfile.h) and the      *)
(* profile of every (container, encoding) pair: block length in frames,    *)
(* sample width, whether a caller type passes through it without loss.     *)
(* These tables are transcribed from the published format definitions and  *)
(* from docs/, not read out of the implementation at run time.             *)
(***************************************************************************)
EXTENDS Integers, Sequences, FiniteSets

SFM_READ  == 16
SFM_WRITE == 32
SFM_RDWR  == 48

SEEK_SET == 0
SEEK_CUR == 1
SEEK_END == 2

Min(a, b) == IF a < b THEN a ELSE b
Max(a, b) == IF a > b THEN a ELSE b

Pow2(n) == CASE n = 0 -> 1 [] n = 1 -> 2 [] n = 2 -> 4 [] n = 3 -> 8 [] n = 4 -> 16 [] n = 5 -> 32
             [] n = 6 -> 64 [] n = 7 -> 128 [] n = 8 -> 256 [] n = 9 -> 512 [] n = 10 -> 1024
             [] n = 11 -> 2048 [] n = 12 -> 4096 [] n = 13 -> 8192 [] n = 14 -> 16384 [] n = 15 -> 32768
             [] n = 16 -> 65536 [] n = 17 -> 131072 [] n = 18 -> 262144 [] n = 19 -> 524288
             [] n = 20 -> 1048576 [] n = 21 -> 2097152 [] n = 22 -> 4194304 [] n = 23 -> 8388608
             [] n = 24 -> 16777216 [] n = 25 -> 33554432 [] n = 26 -> 67108864 [] n = 27 -> 134217728
             [] n = 28 -> 268435456 [] n = 29 -> 536870912 [] n = 30 -> 1073741824

\* ---- exact dyadic numbers <<m, e>> = m * 2^e (the driver logs floats and doubles this way, m odd or 0) ----
Abs(x) == IF x < 0 THEN -x ELSE x
\* strip factors of two from the mantissa
DyNorm(m, e) == IF m = 0 THEN <<0, 0>>
                ELSE LET k == CHOOSE k \in 0..30 : m % Pow2(k) = 0 /\ (m \div Pow2(k)) % 2 # 0 IN <<m \div Pow2(k), e + k>>
\* integer numerator of a dyadic over 2^-q (exact when e >= -q; used for values on the k / 2^q grid)
DyOver(d, q) == d[1] * Pow2(d[2] + q)
OnGrid(d, q) == Len(d) = 2 /\ d[2] >= -q /\ d[2] <= 20 - q

\* ---- format word -------------------------------------------------------
Major(fmt)  == (fmt \div 65536) % 4096
Sub(fmt)    == fmt % 65536
Endian(fmt) == (fmt \div 268435456) % 4

M_WAV == 1   M_AIFF == 2  M_AU == 3    M_RAW == 4   M_PAF == 5   M_SVX == 6  M_NIST == 7  M_VOC == 8
M_IRCAM == 10  M_W64 == 11  M_MAT4 == 12  M_MAT5 == 13  M_PVF == 14  M_XI == 15  M_HTK == 16  M_SDS == 17
M_AVR == 18  M_WAVEX == 19  M_SD2 == 22  M_FLAC == 23  M_CAF == 24  M_WVE == 25  M_OGG == 32  M_MPC2K == 33
M_RF64 == 34  M_MPEG == 35

S_PCM_S8 == 1  S_PCM_16 == 2  S_PCM_24 == 3  S_PCM_32 == 4  S_PCM_U8 == 5  S_FLOAT == 6  S_DOUBLE == 7
S_ULAW == 16  S_ALAW == 17  S_IMA == 18  S_MS == 19  S_GSM == 32  S_VOX == 33
S_NMS16 == 34  S_NMS24 == 35  S_NMS32 == 36  S_G721_32 == 48  S_G723_24 == 49  S_G723_40 == 50
S_DWVW12 == 64  S_DWVW16 == 65  S_DWVW24 == 66  S_DWVWN == 67  S_DPCM8 == 80  S_DPCM16 == 81
S_ALAC16 == 112  S_ALAC20 == 113  S_ALAC24 == 114  S_ALAC32 == 115

KnownMajors == {1,2,3,4,5,6,7,8,10,11,12,13,14,15,16,17,18,19,22,23,24,25,32,33,34,35}
KnownSubs   == {1,2,3,4,5,6,7,16,17,18,19,32,33,34,35,36,48,49,50,64,65,66,67,80,81,96,100,112,113,114,115,128,129,130}

\* ---- encodings ---------------------------------------------------------
\* width in bits of the integer the encoding stores without loss (0 : not an integer-lossless encoding)
IntWidth(sub) == CASE sub \in {S_PCM_S8, S_PCM_U8} -> 8
                   [] sub \in {S_PCM_16, S_DWVW16, S_DPCM16, S_ALAC16} -> 16
                   [] sub \in {S_PCM_24, S_DWVW24, S_ALAC24} -> 24
                   [] sub \in {S_PCM_32, S_ALAC32} -> 32
                   [] sub = S_DWVW12 -> 12
                   [] sub = S_ALAC20 -> 20
                   [] OTHER -> 0

\* SDS is a 7-bit-clean MIDI transport of w-bit PCM, PAF-24 packs 10 frames per block; both keep every bit
\* (they use the PCM subtype codes, so IntWidth already covers them).

TypeBits(T) == IF T = "s" THEN 16 ELSE 32

\* C01 : is writing the values vs with caller type T into encoding sub lossless ?
LosslessInt(T, sub, vs) ==
    LET w == IntWidth(sub) tb == TypeBits(T) IN
    /\ w > 0
    /\ \/ w >= tb
       \/ LET m == Pow2(tb - w) IN \A i \in 1..Len(vs) : vs[i] % m = 0
Lossless(T, sub, vs) ==
    CASE T \in {"s", "i"} -> LosslessInt(T, sub, vs)
      [] T = "f" -> sub \in {S_FLOAT, S_DOUBLE}
      [] T = "d" -> sub = S_DOUBLE
      [] OTHER -> FALSE

\* bytes per stored sample for the sample-granular encodings (0 otherwise)
ByteWidth(sub) == CASE sub \in {S_PCM_S8, S_PCM_U8, S_ULAW, S_ALAW, S_DPCM8} -> 1
                    [] sub \in {S_PCM_16, S_DPCM16} -> 2
                    [] sub = S_PCM_24 -> 3
                    [] sub \in {S_PCM_32, S_FLOAT} -> 4
                    [] sub = S_DOUBLE -> 8
                    [] OTHER -> 0

\* ---- block length in frames ( C04 : N <= F < N + B ) --------------------
\* WAV/W64 ADPCM block size rule (wavlike_srate2blocksize) : function of rate * channels
WavBlockAlign(rc) == IF rc < 12000 THEN 256 ELSE IF rc < 23000 THEN 512 ELSE IF rc < 44000 THEN 1024 ELSE 2048

\* rate * ch without leaving 32-bit arithmetic (only the comparison with 44000 matters)
Rc(rate, ch) == IF rate >= 44000 THEN 44000 ELSE rate * ch

BlockFrames(fmt, ch, rate) ==
    LET m == Major(fmt) sub == Sub(fmt) IN
    CASE sub = S_IMA /\ m \in {M_WAV, M_W64, M_WAVEX, M_RF64} ->
              LET ba == WavBlockAlign(Rc(rate, ch)) IN (2 * (ba - 4 * ch)) \div ch + 1
      [] sub = S_IMA -> 64                                   \* AIFF / CAF "ima4" : 64 frames per packet
      [] sub = S_MS -> LET ba == WavBlockAlign(Rc(rate, ch)) IN 2 + (2 * (ba - 7 * ch)) \div ch
      [] sub = S_GSM /\ m \in {M_WAV, M_W64, M_WAVEX, M_RF64} -> 320   \* WAV49 : two GSM frames per block
      [] sub = S_GSM -> 160
      [] sub \in {S_G721_32, S_G723_24, S_G723_40} -> 120
      [] sub \in {S_NMS16, S_NMS24, S_NMS32} -> 160
      [] sub = S_VOX -> 2                                    \* two 4-bit codes per byte
      [] m = M_SDS /\ sub = S_PCM_S8 -> 60                   \* 120 data bytes per SysEx packet : 2, 3 or 4 bytes per sample
      [] m = M_SDS /\ sub = S_PCM_16 -> 40
      [] m = M_SDS /\ sub = S_PCM_24 -> 30
      [] m = M_PAF /\ sub = S_PCM_24 -> 10
      [] m = M_RAW /\ sub \in {S_DWVW12, S_DWVW16, S_DWVW24} -> 13   \* headerless bit stream: the encoder flushes with 12 zero samples
      [] OTHER -> 1

\* DWVW is a bit stream without frame aligned blocks : the final frames are flushed at close, F = N
\* ALAC in CAF records the number of valid frames in its packet table : F = N

\* (DPCM stores differences: a sample cannot be rewritten or reached without decoding from the start, so it is not sample granular
\*  for random access although its byte width is fixed; XI accepts an RDWR open and then refuses every seek and write)
IsGranular(fmt) == ByteWidth(Sub(fmt)) > 0 /\ ~(Major(fmt) = M_SDS) /\ ~(Major(fmt) = M_PAF /\ Sub(fmt) = S_PCM_24)
                   /\ Sub(fmt) \notin {S_DPCM8, S_DPCM16}

\* containers that pad an odd number of data bytes (C04 : at most one pad frame)
PadsOdd(fmt) == Major(fmt) \in {M_WAV, M_WAVEX, M_RF64, M_AIFF, M_SVX, M_VOC}

\* containers whose sample-rate field represents every integer rate in [1, 2^31-1] exactly (C04)
ExactRate(fmt) == Major(fmt) \in {M_WAV, M_WAVEX, M_RF64, M_W64, M_AIFF, M_AU, M_CAF, M_NIST, M_PAF, M_PVF, M_MAT4, M_MAT5, M_AVR}

\* ---- byte order (C01 / C04) ----
\* Effective byte order of multi-byte samples: 1 little, 2 big.  SF_ENDIAN_FILE (0) is the container's default, SF_ENDIAN_CPU (3)
\* is little on the hosts this runs on.  PVF is always big and XI always little whatever is asked; NIST, IRCAM, MAT4 and MAT5
\* default to the host's order.  The format word a reader reports may spell the same order differently (WAV little is reported
\* as FILE, AIFF big asked explicitly comes back as BIG through the AIFC 'twos' tag): only the effective order is compared.
DefaultOrder(m) == IF m \in {M_AIFF, M_AU, M_PAF, M_SVX, M_HTK, M_SDS, M_AVR, M_SD2, M_CAF, M_PVF} THEN 2 ELSE 1
EffOrder(fmt) == LET e == Endian(fmt) m == Major(fmt) IN
                 IF m = M_PVF THEN 2 ELSE IF m = M_XI THEN 1
                 ELSE IF e = 0 THEN DefaultOrder(m) ELSE IF e = 3 THEN 1 ELSE e
MultiByte(sub) == sub \in {S_PCM_16, S_PCM_24, S_PCM_32, S_FLOAT, S_DOUBLE}

\* a dyadic whose mantissa needs more than 30 bits is logged as <<hi, lo, e>> = (hi * 2^30 + lo) * 2^e
DySplit(d) == IF Abs(d[1]) > 1073741823
              THEN LET sg == IF d[1] < 0 THEN -1 ELSE 1 IN <<sg * (Abs(d[1]) \div 1073741824), sg * (Abs(d[1]) % 1073741824), d[2]>>
              ELSE d

\* width of the integer every decoder of an integer-coded encoding produces (0: float encodings)
DecWidth(sub) == IF IntWidth(sub) > 0 THEN IntWidth(sub)
                 ELSE IF sub \in {S_ULAW, S_ALAW, S_IMA, S_MS, S_GSM, S_VOX, S_NMS16, S_NMS24, S_NMS32,
                                  S_G721_32, S_G723_24, S_G723_40, S_DPCM8} THEN 16 ELSE 0

\* width u of the integer that sf_read_float / sf_read_double deliver with normalisation off: the left-justified 32 bit value L of the
\* decoder divided by 2^(32-u).  The PCM readers and the 16 bit codecs deliver the stored w-bit integer (u = w), PAF-24 its 24 bit
\* integer, the ALAC and DWVW decoders the left-justified value itself (u = 32).  0: no rule.
UnnormWidth(fmt) ==
    LET sub == Sub(fmt) IN
    IF sub \in {S_ALAC16, S_ALAC20, S_ALAC24, S_ALAC32, S_DWVW12, S_DWVW16, S_DWVW24} THEN 32
    ELSE IF sub \in {S_PCM_S8, S_PCM_U8, S_DPCM8} THEN 8
    ELSE IF sub = S_PCM_24 THEN 24
    ELSE IF sub = S_PCM_32 THEN 32
    ELSE IF DecWidth(sub) = 16 THEN 16 ELSE 0

\* (frames are logged clamped to 2^31-1 with frbig = 1 for larger counts -- a pipe of unknown length reports SF_COUNT_MAX -- and frneg = 1 for negative ones)
Sane(info) == /\ info.ch >= 1 /\ info.ch <= 1024 /\ info.rate >= 1 /\ info.fr >= 0 /\ info.frneg = 0
              /\ info.sec >= 1 /\ Major(info.fmt) \in KnownMajors /\ Sub(info.fmt) \in KnownSubs
=============================================================================
