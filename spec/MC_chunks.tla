------------------------------ MODULE MC_chunks ------------------------------
(***************************************************************************)
(* C13, bounded model of the chunk table: sf_set_chunk appends to a table  *)
(* that grows by the library's rule cap' = 3 * (cap + 1) / 2 when full     *)
(* (psf_save_write_chunk); after re-open one iterator walks the stored     *)
(* list, either all of it or the entries with one identifier.              *)
(* Invariants: ChunkCap  -- used never exceeds capacity through every      *)
(*                          growth step (the overflow class of C13)        *)
(*             VisitOnce -- a completed iteration has visited every        *)
(*                          matching chunk exactly once, in order          *)
(***************************************************************************)
EXTENDS Integers, Sequences, FiniteSets

CONSTANTS MaxChunks, InitCap

VARIABLES used, cap, list, phase, it, visited

vars == <<used, cap, list, phase, it, visited>>

Ids == {"A", "B"}

Init == used = 0 /\ cap = 0 /\ list = <<>> /\ phase = "write" /\ it = [mode |-> "none"] /\ visited = <<>>

Grow(c) == IF c = 0 THEN InitCap ELSE (3 * (c + 1)) \div 2

SetChunk(id) ==
    /\ phase = "write" /\ used < MaxChunks
    /\ cap' = IF cap = 0 \/ used >= cap THEN Grow(cap) ELSE cap
    /\ used' = used + 1
    /\ list' = Append(list, id)
    /\ UNCHANGED <<phase, it, visited>>

Reopen == phase = "write" /\ phase' = "read" /\ UNCHANGED <<used, cap, list, it, visited>>

Match(mode, i) == mode = "all" \/ list[i] = mode
NextFrom(mode, k) == LET c == {i \in (k + 1)..Len(list) : Match(mode, i)} IN
                     IF c = {} THEN 0 ELSE CHOOSE i \in c : \A j \in c : i <= j

GetIterator(mode) ==
    /\ phase = "read" /\ it.mode = "none" /\ visited = <<>>
    /\ LET f == NextFrom(mode, 0) IN
       /\ it' = IF f = 0 THEN [mode |-> "done", want |-> mode] ELSE [mode |-> mode, pos |-> f]
       /\ visited' = IF f = 0 THEN <<>> ELSE <<f>>
    /\ UNCHANGED <<used, cap, list, phase>>

NextIt ==
    /\ phase = "read" /\ it.mode \in {"all"} \cup Ids
    /\ LET f == NextFrom(it.mode, it.pos) IN
       /\ it' = IF f = 0 THEN [mode |-> "done", want |-> it.mode] ELSE [it EXCEPT !.pos = f]
       /\ visited' = IF f = 0 THEN visited ELSE Append(visited, f)
    /\ UNCHANGED <<used, cap, list, phase>>

\* (two identifiers for the first six chunks -- every id pattern the iterator clauses need -- then a single one, so that
\*  the capacity clause can be followed through many growth steps without enumerating 2^n lists)
Next == (\E id \in (IF used < 6 THEN Ids ELSE {"A"}) : SetChunk(id)) \/ Reopen \/ (\E m \in {"all"} \cup Ids : GetIterator(m)) \/ NextIt

Spec == Init /\ [][Next]_vars

TypeOK == used \in 0..MaxChunks /\ cap \in Nat /\ Len(list) = used
ChunkCap == used <= cap
VisitOnce == it.mode = "done" =>
               /\ \A i \in 1..Len(list) : Match(it.want, i) <=> (\E j \in 1..Len(visited) : visited[j] = i)
               /\ \A j \in 1..(Len(visited) - 1) : visited[j] < visited[j + 1]
=============================================================================
