SPECIFICATION Spec
INVARIANTS G711Ids UMonotone AMonotone UIdem AIdem IntRules
