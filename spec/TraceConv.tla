------------------------------- MODULE TraceConv -------------------------------
(***************************************************************************)
(* C02 / C20 trace validator: sample conversion rules and codec kernels.   *)
(* Scenario kinds (cfg.kind):                                              *)
(*  "enc"  values written through caller type cfg.T into a headerless file *)
(*         of encoding cfg.sub; the bytes of the file ("filedump") must be *)
(*         the bytes the rules predict for every value                     *)
(*  "dec"  bytes placed in a headerless file, read through caller type     *)
(*         cfg.T; every value delivered must be what the rules predict     *)
(* cfg: sub (encoding), big (0/1 byte order), norm (0/1), clip (0/1),      *)
(*      ieee (1: portable IEEE serialiser forced by SFC_TEST_IEEE_...)      *)
(* Floats and doubles are logged as exact dyadics (driver fmode = 1) or,   *)
(* for the IEEE serialiser scenarios, as bit patterns (fmode = 0).         *)
(***************************************************************************)
EXTENDS SfConv, SfG711, TLC, Json, IOUtils

Tr == ndJsonDeserialize(IOEnv.TRACE)

VARIABLES l, bad, cfg, wv, wT, fbytes, skip, nscn, npairs

vars == <<l, bad, cfg, wv, wT, fbytes, skip, nscn, npairs>>
Ev == Tr[l]
Get(e, f, d) == IF f \in DOMAIN e THEN e[f] ELSE d

\* number of significant bits, rounding to p significant bits (result as mantissa and dropped bit count)
BitLen(n) == IF n = 0 THEN 0 ELSE CHOOSE k \in 1..31 : n >= Pow2(k - 1) /\ (k = 31 \/ n < Pow2(k))
RoundSig(n, p) == LET b == BitLen(n) IN IF b <= p THEN <<n, 0>> ELSE <<RHE(n, b - p), b - p>>

\* ---- expected stored code of one written value ----
Width(sub) == IntWidth(sub)
SignOf(x) == IF x < 0 THEN -1 ELSE 1
\* float / double value given as dyadic d = <<m, e>>: it is on the grid j / 2^(w-1) iff e >= -(w-1)
GridJ(d, w) == IF d[1] = 0 THEN 0 ELSE d[1] * Pow2(d[2] + (w - 1))
OnGridW(d, w) == Len(d) = 2 /\ d[2] >= -(w - 1) /\ d[2] <= 2
\* nearest integer to x * (2^(w-1) - 1); the float entry points round the product to 24 significant bits first (deviation D2)
ScaleRound(j, w, T) ==
    LET n == Abs(j) * (Pow2(w - 1) - 1)
        r == IF T = "f" THEN RoundSig(n, 24) ELSE <<n, 0>>
        \* value = r[1] * 2^r[2] / 2^(w-1)
        k == (w - 1) - r[2]
        q == IF k <= 0 THEN r[1] * Pow2(-k) ELSE RHE(r[1], k)
    IN SignOf(j) * q
\* 24 and 32 bit targets, normalisation on, clipping off, x = m * 2^e with |x| < 1 (the product m * (2^(w-1) - 1) does not fit TLC's
\* integers in general, so the rule is evaluated in a form that does, for inputs the generator keeps inside these preconditions):
\*  float, w = 32 : the scale 2^31 - 1 is not a float, (float) 0x7FFFFFFF is 2^31: the stored code is the nearest integer to x * 2^31
\*  float, w = 24 : |m| <= 255: product m * (2^23 - 1) rounded to 24 significant bits (float multiplication), then nearest integer
\*  double        : x on the grid 2^-(w-1) (and m of at most 22 bits for w = 32, so that the double product is exact):
\*                  x * (2^(w-1) - 1) = A - x with A = x * 2^(w-1) an integer: A when |x| <= 1/2, one step towards zero otherwise
ScaleWide(d, w, T) ==
    LET m == d[1]  e == d[2]  a == Abs(m) IN
    IF m = 0 THEN 0
    ELSE IF T = "f" /\ w = 32 THEN (IF e + 31 >= 0 THEN m * Pow2(e + 31) ELSE SignOf(m) * RHE(a, -(e + 31)))
    ELSE IF T = "f" THEN LET n == a * (Pow2(w - 1) - 1)  r == RoundSig(n, 24)  k == -(r[2] + e) IN
                         SignOf(m) * (IF k <= 0 THEN r[1] * Pow2(-k) ELSE RHE(r[1], k))
    ELSE LET A == m * Pow2(e + w - 1) IN
         IF BitLen(a) + e >= 0 /\ ~(a = 1 /\ e = -1) THEN A - SignOf(m) ELSE A
MaxCode(w) == IF w = 32 THEN 2147483647 ELSE Pow2(w - 1) - 1
MinCode(w) == IF w = 32 THEN -2147483647 - 1 ELSE -Pow2(w - 1)
CodeOfFloat(T, w, d, norm, clip) ==
    IF ~norm THEN (IF d[2] >= 0 THEN d[1] * Pow2(d[2]) ELSE SignOf(d[1]) * RHE(Abs(d[1]), -d[2]))      \* unscaled: nearest integer
    ELSE IF clip THEN
         \* scale 2^(w-1) and saturate (D1); |x| >= 1 is recognised on the dyadic so that 2^31 is never formed
         IF BitLen(Abs(d[1])) + d[2] >= 1 THEN (IF d[1] > 0 THEN MaxCode(w) ELSE MinCode(w))      \* |x| >= 1
         ELSE LET k == -(d[2] + (w - 1)) IN          \* x * 2^(w-1) = m / 2^k
              IF k <= 0 THEN GridJ(d, w)
              ELSE LET q == SignOf(d[1]) * RHE(Abs(d[1]), k) IN
                   IF q > MaxCode(w) THEN MaxCode(w) ELSE IF q < MinCode(w) THEN MinCode(w) ELSE q    \* rounding up to 2^(w-1) saturates too
    ELSE IF w <= 16 THEN ScaleRound(GridJ(d, w), w, T) ELSE ScaleWide(d, w, T)

ExpCode(T, sub, v, norm, clip) ==
    LET w == Width(sub) IN
    IF T \in {"s", "i"} THEN CodeOfInt(T, w, v) ELSE CodeOfFloat(T, w, v, norm, clip)
\* G.711 through the float / double entry points: x = j / 32768; index = nearest integer to |x| * 32767 / 4 (mu) or / 16 (A)
G711Float(d, T, mu) ==
    LET j == GridJ(d, 16)  n == Abs(j) * 32767
        r == IF T = "f" THEN RoundSig(n, 24) ELSE <<n, 0>>
        sh == (IF mu THEN 17 ELSE 19) - r[2]
        idx == IF sh <= 0 THEN r[1] * Pow2(-sh) ELSE RHE(r[1], sh)
    IN IF mu THEN UEncodeIdx(idx, j < 0) ELSE AEncodeIdx(idx, j < 0)

\* G.711 from a 32 bit input: the upper 16 bits are encoded.  Whether the discarded lower bits of a negative input are dropped
\* from the two's complement value (floor) or from the magnitude (towards zero) is not part of the documented rule: both are accepted.
G711IntAlt(sub, v) == LET t == IF v = -2147483647 - 1 THEN -32768 ELSE IF v < 0 THEN -((-v) \div 65536) ELSE v \div 65536 IN
                      <<IF sub = S_ULAW THEN UEncode16(t) ELSE AEncode16(t)>>
\* bytes of one sample in the file
ExpBytes(T, sub, v, big, norm, clip) ==
    CASE sub = S_ULAW -> <<IF T = "s" THEN UEncode16(v) ELSE IF T = "i" THEN UEncode16(v \div 65536) ELSE G711Float(v, T, TRUE)>>
      [] sub = S_ALAW -> <<IF T = "s" THEN AEncode16(v) ELSE IF T = "i" THEN AEncode16(v \div 65536) ELSE G711Float(v, T, FALSE)>>
      [] sub = S_PCM_U8 -> <<ExpCode(T, sub, v, norm, clip) + 128>>
      [] OTHER -> BytesOf(ExpCode(T, sub, v, norm, clip), Width(sub) \div 8, big)
\* the driver logs mantissas wider than 30 bits in two parts <<hi, lo, e>> (hi = |m| div 2^30, lo = |m| mod 2^30, both signed)
\* ---- expected value delivered for one stored code ----
DecodeCode(sub, bytes, big) ==
    CASE sub = S_ULAW -> UDecode(bytes[1])
      [] sub = S_ALAW -> ADecode(bytes[1])
      [] sub = S_PCM_U8 -> bytes[1] - 128
      [] OTHER -> SignedOf(bytes, Len(bytes), big)
ExpValue(T, sub, c, norm) ==
    LET w == IF sub \in {S_ULAW, S_ALAW} THEN 16 ELSE Width(sub) IN
    IF T \in {"s", "i"} THEN CodeToInt(T, w, c)
    ELSE IF c = -2147483647 - 1 THEN <<-1, 31 - (IF norm THEN w - 1 ELSE 0)>>       \* -2^31 itself (its magnitude is not a TLC integer)
    ELSE \* (float) of a code wider than 24 bits rounds to 24 significant bits first
         LET r == IF T = "f" THEN RoundSig(Abs(c), 24) ELSE <<Abs(c), 0>> IN
         DySplit(DyNorm(SignOf(c) * r[1], r[2] - (IF norm THEN w - 1 ELSE 0)))

SampleBytes(sub) == IF sub \in {S_ULAW, S_ALAW, S_PCM_U8, S_PCM_S8} THEN 1 ELSE Width(sub) \div 8
Chunk(bytes, i, n) == SubSeq(bytes, (i - 1) * n + 1, i * n)

\* ---- portable IEEE serialisers (C20): a written float bit pattern appears unchanged in the file, and back ----
PatBytes(v, big) == BytesOf(v, 4, big)                            \* float: one signed 32 bit pattern
DblBytes(v, big) == IF big THEN BytesOf(v[1], 4, TRUE) \o BytesOf(v[2], 4, TRUE) ELSE BytesOf(v[2], 4, FALSE) \o BytesOf(v[1], 4, FALSE)

EncOK(e) ==      \* filedump event of an "enc" scenario
    LET sub == cfg.sub  big == cfg.big = 1  norm == Get(cfg, "norm", 1) = 1  clip == Get(cfg, "clip", 0) = 1 IN
    IF Get(cfg, "ieee", 0) = 1 THEN
         LET n == IF wT = "f" THEN 4 ELSE 8 IN
         /\ Len(e.bytes) = n * Len(wv)
         /\ \A i \in 1..Len(wv) : Chunk(e.bytes, i, n) = (IF wT = "f" THEN PatBytes(wv[i], big) ELSE DblBytes(wv[i], big))
    ELSE LET n == SampleBytes(sub) IN
         /\ Len(e.bytes) = n * Len(wv)
         /\ \A i \in 1..Len(wv) : IF Chunk(e.bytes, i, n) = ExpBytes(wT, sub, wv[i], big, norm, clip) THEN TRUE
                                    ELSE (wT = "i" /\ sub \in {S_ULAW, S_ALAW} /\ Chunk(e.bytes, i, n) = G711IntAlt(sub, wv[i]))
DecOK(e) ==      \* read event of a "dec" scenario
    LET sub == cfg.sub  big == cfg.big = 1  norm == Get(cfg, "norm", 1) = 1 IN
    IF Get(cfg, "ieee", 0) = 1 THEN
         LET n == IF e.T = "f" THEN 4 ELSE 8 IN
         /\ e.ret = Len(fbytes) \div n
         /\ \A i \in 1..e.ret : (IF e.T = "f" THEN PatBytes(e.out[i], big) ELSE DblBytes(e.out[i], big)) = Chunk(fbytes, i, n)
    ELSE LET n == SampleBytes(sub) IN
         /\ e.ret = Len(fbytes) \div n
         /\ \A i \in 1..e.ret : e.out[i] = ExpValue(e.T, sub, DecodeCode(sub, Chunk(fbytes, i, n), big), norm)

Init == l = 1 /\ bad = <<>> /\ cfg = [kind |-> "none"] /\ wv = <<>> /\ wT = "s" /\ fbytes = <<>> /\ skip = FALSE /\ nscn = 0 /\ npairs = 0

Reject(e, why) == bad' = Append(bad, [s |-> e.s, i |-> e.i, op |-> e.op, why |-> why, idx |-> cfg.idx])

Next ==
    /\ l <= Len(Tr) /\ l' = l + 1
    /\ LET e == Ev IN
       IF e.op = "reset" THEN cfg' = e.cfg /\ wv' = <<>> /\ fbytes' = <<>> /\ skip' = FALSE /\ nscn' = nscn + 1 /\ UNCHANGED <<bad, wT, npairs>>
       ELSE IF skip THEN UNCHANGED <<bad, cfg, wv, wT, fbytes, skip, nscn, npairs>>
       ELSE IF e.op \in {"crash", "timeout"} THEN Reject(e, e.op) /\ skip' = TRUE /\ UNCHANGED <<cfg, wv, wT, fbytes, nscn, npairs>>
       ELSE IF e.op = "write" THEN
            IF e.ret = e.n THEN wv' = wv \o e.v /\ wT' = e.T /\ UNCHANGED <<bad, cfg, fbytes, skip, nscn, npairs>>
            ELSE Reject(e, "write") /\ skip' = TRUE /\ UNCHANGED <<cfg, wv, wT, fbytes, nscn, npairs>>
       ELSE IF e.op = "filedump" THEN
            IF cfg.kind = "enc" THEN
                 (IF EncOK(e) THEN UNCHANGED <<bad, skip>> ELSE Reject(e, "enc") /\ skip' = TRUE)
                 /\ npairs' = npairs + Len(wv) /\ UNCHANGED <<cfg, wv, wT, fbytes, nscn>>
            ELSE fbytes' = e.bytes /\ UNCHANGED <<bad, cfg, wv, wT, skip, nscn, npairs>>
       ELSE IF e.op = "read" /\ cfg.kind = "dec" THEN
            (IF DecOK(e) THEN UNCHANGED <<bad, skip>> ELSE Reject(e, "dec") /\ skip' = TRUE)
            /\ npairs' = npairs + e.ret /\ UNCHANGED <<cfg, wv, wT, fbytes, nscn>>
       ELSE IF e.op = "open" /\ e.ok = 0 THEN Reject(e, "open") /\ skip' = TRUE /\ UNCHANGED <<cfg, wv, wT, fbytes, nscn, npairs>>
       ELSE UNCHANGED <<bad, cfg, wv, wT, fbytes, skip, nscn, npairs>>

TSpec == Init /\ [][Next]_vars
Verdict == l = Len(Tr) + 1 =>
    PrintT(<<"VERDICT", ToJson([bad |-> bad, nbad |-> Len(bad), scenarios |-> nscn, events |-> npairs, lines |-> Len(Tr)])>>)
Accepted == TLCGet("stats").diameter - 1 = Len(Tr)
=============================================================================
