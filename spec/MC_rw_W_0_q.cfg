SPECIFICATION Spec
CONSTANTS
  Mode = 32
  Ch = 1
  MaxFrames = 3
  MaxWrites = 2
  Depth = 0
  GEN = FALSE
  Pre = 0
  Alpha = "gen"
CONSTRAINT Bound
INVARIANTS TypeOK PredAllowed C08_StoreLen C06_PosInFile C09_Atomic C09_Clean C05_Read C05_Write C08_WriteLands C08_SeekPointers C08_Truncate C08_Reopen
