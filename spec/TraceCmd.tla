------------------------------- MODULE TraceCmd -------------------------------
(***************************************************************************)
(* C17: sf_command never touches more than datasize bytes through the data *)
(* pointer, never dereferences a NULL data pointer, returns a defined      *)
(* value, NUL terminates strings within datasize, and commands that only   *)
(* query information leave the handle unchanged.                           *)
(*                                                                         *)
(* One "cmdgrid" event per (command id, datasize, data in {NULL, block},   *)
(* handle state, format).  The data block is exactly datasize bytes and    *)
(* ends at an inaccessible page: an access beyond it, or through NULL, is  *)
(* a recorded fault.  'same' compares the complete hook snapshot and the   *)
(* digest of the backing store before and after the call.                  *)
(***************************************************************************)
EXTENDS Integers, Sequences, TLC, Json, IOUtils

Tr == ndJsonDeserialize(IOEnv.TRACE)

VARIABLES l, bad, ncall, nquery

vars == <<l, bad, ncall, nquery>>

\* CmdTable: purity class of every identifier in include/sndfile.h (query = must be a stuttering step on the handle)
Queries == {"GET_LIB_VERSION", "GET_LOG_INFO", "GET_CURRENT_SF_INFO", "GET_NORM_DOUBLE", "GET_NORM_FLOAT",
            "GET_SIMPLE_FORMAT_COUNT", "GET_SIMPLE_FORMAT", "GET_FORMAT_INFO", "GET_FORMAT_MAJOR_COUNT", "GET_FORMAT_MAJOR",
            "GET_FORMAT_SUBTYPE_COUNT", "GET_FORMAT_SUBTYPE", "CALC_SIGNAL_MAX", "CALC_NORM_SIGNAL_MAX", "CALC_MAX_ALL_CHANNELS",
            "CALC_NORM_MAX_ALL_CHANNELS", "GET_SIGNAL_MAX", "GET_MAX_ALL_CHANNELS", "GET_DITHER_INFO_COUNT", "GET_DITHER_INFO",
            "GET_EMBED_FILE_INFO", "GET_CLIPPING", "GET_CUE_COUNT", "GET_CUE", "GET_INSTRUMENT", "GET_LOOP_INFO",
            "GET_BROADCAST_INFO", "GET_CHANNEL_MAP_INFO", "RAW_DATA_NEEDS_ENDSWAP", "WAVEX_GET_AMBISONIC", "GET_CART_INFO",
            "GET_ORIGINAL_SAMPLERATE", "GET_BITRATE_MODE", "GET_OGG_STREAM_SERIALNO"}
StringCmds == {"GET_LIB_VERSION", "GET_LOG_INFO"}

CmdOK(e) ==
    /\ e.fault = 0                                         \* nothing read or written outside [data, data + datasize), NULL never dereferenced
    /\ e.ret # -77777                                      \* the call returned a value
    /\ (e.hasdata = 1 => e.changed <= e.size /\ e.last < e.size)
    /\ (e.name \in Queries => e.same = 1)                  \* queries are pure
    /\ (e.name \in StringCmds /\ e.hasdata = 1 /\ e.size >= 1 /\ e.changed > 0) => (e.nul >= 0 /\ e.nul < e.size)

Init == l = 1 /\ bad = <<>> /\ ncall = 0 /\ nquery = 0
Next == /\ l <= Len(Tr) /\ l' = l + 1
        /\ LET e == Tr[l] IN
           IF e.op = "cmdgrid" THEN
                /\ bad' = IF CmdOK(e) THEN bad ELSE Append(bad, [s |-> e.s, i |-> e.i, op |-> "cmdgrid",
                              why |-> IF e.fault # 0 THEN "fault" ELSE IF e.name \in Queries /\ e.same # 1 THEN "impure" ELSE "bounds",
                              name |-> e.name, size |-> e.size, hasdata |-> e.hasdata, hstate |-> e.hstate])
                /\ ncall' = ncall + 1 /\ nquery' = nquery + (IF e.name \in Queries THEN 1 ELSE 0)
           ELSE IF e.op \in {"crash", "timeout"} THEN
                /\ bad' = Append(bad, [s |-> e.s, i |-> e.i, op |-> e.op, why |-> e.op, name |-> e.during, size |-> 0, hasdata |-> 0, hstate |-> 0])
                /\ UNCHANGED <<ncall, nquery>>
           ELSE UNCHANGED <<bad, ncall, nquery>>
TSpec == Init /\ [][Next]_vars
Verdict == l = Len(Tr) + 1 =>
    PrintT(<<"VERDICT", ToJson([bad |-> IF Len(bad) > 20000 THEN SubSeq(bad, 1, 20000) ELSE bad, nbad |-> Len(bad), scenarios |-> ncall, events |-> ncall, lines |-> Len(Tr), queries |-> nquery])>>)
Accepted == TLCGet("stats").diameter - 1 = Len(Tr)
=============================================================================
