------------------------------- MODULE MC_rw -------------------------------
(***************************************************************************)
(* Bounded model of one handle on a sample-granular file (16 bit PCM):     *)
(* every sequence of read / write / seek / truncate / close+re-open calls  *)
(* over a small alphabet, in the three open modes.  The calls are the      *)
(* SfHandle actions driven by their deterministic predictions (XxxPred).   *)
(*                                                                         *)
(* Checked on every reachable state / step:                                *)
(*   PredAllowed   the deterministic model is inside the property level    *)
(*                 outcome sets (XxxOK) used by the trace validator        *)
(*   C05_*, C06_*, C08_*, C09_*  see below                                  *)
(* With GEN = TRUE the model carries the call history and prints every     *)
(* history of length Depth ("HIST" lines) for replay into the library.     *)
(***************************************************************************)
EXTENDS SfHandle, Json

CONSTANTS Mode,        \* SFM_READ / SFM_WRITE / SFM_RDWR
          Ch,          \* channels
          MaxFrames,   \* state constraint
          MaxWrites,
          Depth,       \* history length for GEN
          GEN,         \* BOOLEAN
          Pre,         \* frames already in the file when it is opened (pre-populated start)
          Alpha        \* "full" : whole alphabet (model checking) ; "gen" : the replay alphabet

VARIABLES s, cv, hist, nw, ok, lastc, lasto, pres, precv

vars == <<s, cv, hist, nw, ok, lastc, lasto, pres, precv>>

Fmt == 65538     \* WAV | PCM_16

PreVals == [i \in 1..(Pre * Ch) |-> 100 + i]

Init ==
    /\ s = [life |-> "open", mode |-> Mode, ch |-> Ch, fmt |-> Fmt, rate |-> 8000, B |-> 1, gran |-> TRUE, skb |-> TRUE,
            frames |-> Pre, rpos |-> 0, wpos |-> (IF Mode = SFM_RDWR THEN Pre ELSE 0), err |-> FALSE,
            hw |-> (Mode = SFM_RDWR /\ Pre > 0), auto |-> FALSE, relax |-> FALSE, cid |-> 0, fid |-> 1, route |-> "fd", nd |-> 1, nf |-> 1, sif |-> 0, sfi |-> 0, cl |-> 0, flen |-> -1]
    /\ cv = [NewContent EXCEPT !.val = PreVals, !.kt = [i \in 1..(Pre * Ch) |-> "s"]]
    /\ hist = <<>> /\ nw = 0 /\ ok = TRUE
    /\ lastc = [op |-> "none"] /\ lasto = [ret |-> 0, er |-> 0]
    /\ pres = s /\ precv = cv

Tok(k, n) == [i \in 1..n |-> 10 * (k + 1) + i]

Whences == {0, 1, 2, 16, 17, 18, 32, 33, 34, 48, 49, 3, 64}

GenCalls ==
    {[op |-> "read", T |-> "s", unit |-> u, n |-> n] : u \in {"f"}, n \in {1, 2}}
    \cup {[op |-> "read", T |-> "s", unit |-> "i", n |-> 3 * Ch]}
    \cup {[op |-> "write", T |-> "s", unit |-> "f", n |-> n, v |-> Tok(nw, n * Ch)] : n \in {1, 2}}
    \cup {[op |-> "seek", off |-> off, wh |-> wh] : off \in {-1, 0, 1, 2}, wh \in {0, 1, 2, 16, 17, 33, 34}}
    \cup {[op |-> "trunc", n |-> 1], [op |-> "reopen"]}

FullCalls ==
    {[op |-> "read", T |-> "s", unit |-> u, n |-> n] : u \in {"i", "f"}, n \in {-1, 0, 1, 2, 3}}
    \cup {[op |-> "write", T |-> "s", unit |-> u, n |-> n, v |-> Tok(nw, IF u = "f" THEN n * Ch ELSE n)] : u \in {"i", "f"}, n \in {0, 1, 2, 3}}
    \cup {[op |-> "write", T |-> "s", unit |-> "i", n |-> -1, v |-> <<>>]}
    \cup {[op |-> "seek", off |-> off, wh |-> wh] : off \in -1..3, wh \in Whences}
    \cup {[op |-> "trunc", n |-> n] : n \in {-1, 0, 1, 2}}
    \cup {[op |-> "reopen"]}

Calls == IF Alpha = "gen" THEN GenCalls ELSE FullCalls

PredOf(c) == CASE c.op = "read"  -> ReadPred(s, cv, c)
               [] c.op = "write" -> WritePred(s, cv, c)
               [] c.op = "seek"  -> SeekPred(s, cv, c)
               [] c.op = "trunc" -> TruncPred(s, cv, c)

OKOf(c, o) == CASE c.op = "read"  -> ReadOK(s, cv, c, o)
                [] c.op = "write" -> WriteOK(s, cv, c, o)
                [] c.op = "seek"  -> SeekOK(s, cv, c, o)
                [] c.op = "trunc" -> TruncOK(s, cv, c, o)

PostOf(c, o) == CASE c.op = "read"  -> ReadPost(s, cv, c, o)
                  [] c.op = "write" -> WritePost(s, cv, c, o)
                  [] c.op = "seek"  -> SeekPost(s, cv, c, o)
                  [] c.op = "trunc" -> TruncPost(s, cv, c, o)

\* close followed by a fresh open in the same mode (C08: the fresh open sees the final sequence and count)
Reopen ==
    /\ s' = [s EXCEPT !.rpos = 0, !.wpos = (IF Mode = SFM_RDWR THEN s.frames ELSE 0), !.err = FALSE,
                      !.hw = (Mode = SFM_RDWR /\ s.frames > 0)]
    /\ cv' = cv
    /\ lastc' = [op |-> "reopen"] /\ lasto' = [ret |-> 0, er |-> 0, fr |-> s.frames]
    /\ ok' = TRUE /\ nw' = nw
    /\ hist' = IF GEN THEN Append(hist, [c |-> [op |-> "reopen"], o |-> [fr |-> s.frames]]) ELSE hist

Step(c) ==
    IF c.op = "reopen" THEN Mode # SFM_WRITE /\ Reopen
    ELSE LET o == PredOf(c) p == PostOf(c, o) IN
         /\ s' = p.s /\ cv' = p.cv
         /\ ok' = OKOf(c, o)
         /\ nw' = IF c.op = "write" /\ c.n > 0 THEN nw + 1 ELSE nw
         /\ lastc' = c /\ lasto' = o
         /\ hist' = IF GEN THEN Append(hist, [c |-> c, o |-> o]) ELSE hist

Next == /\ (GEN => Len(hist) < Depth)
        /\ \E c \in Calls : Step(c)
        /\ pres' = s /\ precv' = cv

Spec == Init /\ [][Next]_vars

Bound == cv.gen <= 2 /\ s.frames <= MaxFrames /\ nw <= MaxWrites /\ s.rpos <= MaxFrames + 1 /\ s.wpos <= MaxFrames + 1

-----------------------------------------------------------------------------
TypeOK == /\ s.rpos \in 0..(MaxFrames + 4) /\ s.wpos \in 0..(MaxFrames + 4) /\ s.frames \in 0..(MaxFrames + 4)
          /\ s.err \in BOOLEAN

PredAllowed == ok

\* C08: the store always holds exactly 'frames' frames
C08_StoreLen == Len(cv.val) = s.frames * Ch /\ Len(cv.kt) = s.frames * Ch

\* C06: in read mode the position never leaves the file
C06_PosInFile == Mode = SFM_READ => s.rpos <= s.frames

Failed == lasto.er # 0 \/ (lastc.op = "seek" /\ lasto.ret = -1)

\* C09: a failed call leaves positions, frame count and content unchanged and sets the error;
\*      a successful (non-empty) call leaves no error
C09_Atomic == Failed => (s.rpos = pres.rpos /\ s.wpos = pres.wpos /\ s.frames = pres.frames /\ cv = precv /\ s.err)
C09_Clean  == (~Failed /\ lastc.op \in {"read", "write"} /\ lastc.n # 0) => ~s.err

\* C05: counts and positions
C05_Read == lastc.op = "read" =>
              /\ lasto.ret >= 0 /\ lasto.ret <= Max(lastc.n, 0)
              /\ s.rpos = pres.rpos + (IF lastc.unit = "f" THEN lasto.ret ELSE lasto.ret \div Ch)
              /\ s.wpos = pres.wpos /\ s.frames = pres.frames /\ cv.val = precv.val
              /\ (lasto.ret > 0 => lasto.out = SubSeq(precv.val, pres.rpos * Ch + 1, pres.rpos * Ch + Len(lasto.out)))
              /\ (~Failed /\ lastc.n > 0 /\ lasto.ret < lastc.n =>
                      pres.rpos + (IF lastc.unit = "f" THEN lastc.n ELSE lastc.n \div Ch) >= pres.frames)   \* short only at end of data
C05_Write == (lastc.op = "write" /\ ~Failed /\ lastc.n > 0) =>
              /\ lasto.ret = lastc.n
              /\ s.wpos = pres.wpos + (IF lastc.unit = "f" THEN lasto.ret ELSE lasto.ret \div Ch)
              /\ s.frames = Max(pres.frames, s.wpos)
              /\ s.rpos = pres.rpos                                                       \* C08: pointers are independent

\* C08: what was written at frame p is what the store holds at p; data outside the written range is preserved
C08_WriteLands == (lastc.op = "write" /\ ~Failed /\ lastc.n > 0) =>
              /\ SubSeq(cv.val, pres.wpos * Ch + 1, pres.wpos * Ch + Len(lastc.v)) = lastc.v
              /\ \A i \in 1..Min(pres.wpos * Ch, Len(precv.val)) : cv.val[i] = precv.val[i]
              /\ \A i \in (pres.wpos * Ch + Len(lastc.v) + 1)..Len(precv.val) : cv.val[i] = precv.val[i]

\* C08: whence | SFM_READ moves only the read pointer, | SFM_WRITE only the write pointer, plain moves both in RDWR
C08_SeekPointers == (lastc.op = "seek" /\ ~Failed /\ ~SeekIsQuery(pres, lastc)) =>
              LET w == SeekWhich(lastc) IN
              /\ (w = SFM_READ => s.wpos = pres.wpos /\ s.rpos = lasto.ret)
              /\ (w = SFM_WRITE => s.rpos = pres.rpos /\ s.wpos = lasto.ret)
              /\ (w = 0 /\ Mode = SFM_RDWR => s.rpos = lasto.ret /\ s.wpos = lasto.ret)
              /\ s.frames = pres.frames /\ cv = precv

C08_Truncate == (lastc.op = "trunc" /\ lasto.ret = 0) =>
              /\ s.frames = lastc.n /\ Len(cv.val) = lastc.n * Ch
              /\ \A i \in 1..Min(Len(cv.val), Len(precv.val)) : cv.val[i] = precv.val[i]

C08_Reopen == lastc.op = "reopen" => (s.frames = pres.frames /\ cv = precv /\ s.rpos = 0)

Emit == (GEN /\ Len(hist) = Depth) => PrintT(<<"HIST", ToJson(hist)>>)
=============================================================================
