SPECIFICATION TSpec
INVARIANT Verdict
POSTCONDITION Accepted
CHECK_DEADLOCK FALSE
