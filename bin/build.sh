#!/bin/bash
# Build the instrumented libsndfile (hooks on, ASan+UBSan) from $VERIF_REPO's working tree
# and the driver sfdrive.  Incremental: cmake --build picks up any source edit.
# usage: build.sh [variant]   variant: asan (default) | nosse
set -e
V=${1:-asan}
REPO=${VERIF_REPO:-/repo}
ROOT=$(cd "$(dirname "$0")/.." && pwd)
# a separate build tree per repo path so a mutated scratch copy never pollutes /repo's tree
TAG=$(echo "$REPO" | md5sum | cut -c1-8)
B=$ROOT/build/$V-$TAG
case $V in
  asan)  CF="-O1 -g -fno-omit-frame-pointer -fsanitize=address,bounds,null -fsanitize-recover=bounds,null -DLIBSNDFILE_VERIF=1" ;;
  nosse) CF="-O2 -g -U__SSE2__ -mno-sse2 -mfpmath=387 -DLIBSNDFILE_VERIF=1" ;;
  fast)  CF="-O2 -g -DLIBSNDFILE_VERIF=1" ;;
  *) echo "unknown variant $V" >&2 ; exit 2 ;;
esac
[ "$V" = nosse ] && CF="-O2 -g -U__SSE2__ -DLIBSNDFILE_VERIF=1"
if [ ! -f "$B/build.ninja" ]; then
  mkdir -p "$B"
  cmake -G Ninja -S "$REPO" -B "$B" -DCMAKE_C_COMPILER=clang -DCMAKE_BUILD_TYPE=None \
    -DCMAKE_C_FLAGS="$CF" -DBUILD_TESTING=OFF -DBUILD_PROGRAMS=OFF -DBUILD_EXAMPLES=OFF \
    -DBUILD_SHARED_LIBS=OFF -DENABLE_CPACK=OFF -DENABLE_PACKAGE_CONFIG=OFF -DINSTALL_PKGCONFIG_MODULE=OFF \
    -DINSTALL_MANPAGES=OFF > "$B/configure.log" 2>&1 || { cat "$B/configure.log" >&2; exit 2; }
fi
cmake --build "$B" --target sndfile > "$B/build.log" 2>&1 || { tail -50 "$B/build.log" >&2; exit 2; }
LIB=$(find "$B" -name 'libsndfile.a' | head -1)
[ -n "$LIB" ] || { echo "libsndfile.a not found" >&2; exit 2; }
OUT=$B/sfdrive
SRC=$ROOT/harness/sfdrive.c
if [ ! -x "$OUT" ] || [ "$SRC" -nt "$OUT" ] || [ "$ROOT/harness/sfdrive_cmd.inc" -nt "$OUT" ] || [ "$LIB" -nt "$OUT" ]; then
  WRAP="-Wl,--wrap=malloc -Wl,--wrap=calloc -Wl,--wrap=realloc -Wl,--wrap=free -Wl,--wrap=time -Wl,--wrap=gettimeofday"
  case $V in
    asan) SAN="-fsanitize=address,bounds,null"; WRAP="-Wl,--wrap=time -Wl,--wrap=gettimeofday -DSFD_NO_MALLOC_WRAP=1" ;;
    *) SAN="" ;;
  esac
  clang $CF $SAN -I"$REPO/include" -I"$B/include" -o "$OUT.tmp" "$SRC" "$LIB" $WRAP -lm -lpthread 2> "$B/sfdrive.log" \
    || { cat "$B/sfdrive.log" >&2; exit 2; }
  mv "$OUT.tmp" "$OUT"
fi
echo "$OUT"
