"""Format lists taken from the library's own enumeration commands (never from a table in /verif)."""
import json, os, subprocess, tempfile
import vlib

ENDIANS = [0x00000000, 0x10000000, 0x20000000]   # FILE, LITTLE, BIG   (CPU = 0x30000000)


def _drive(exe, lines):
    d = tempfile.mkdtemp(prefix="fmt_")
    sp, ep = os.path.join(d, "s"), os.path.join(d, "e")
    open(sp, "w").write("\n".join(lines) + "\n")
    vlib.run_driver(exe, sp, ep)
    evs = [json.loads(l) for l in open(ep)]
    import shutil
    shutil.rmtree(d, ignore_errors=True)
    return evs


_cache = {}


def enumerate_formats(exe):
    """returns dict(majors=[(fmt,name)], subtypes=[(fmt,name)], simple=[fmt])"""
    if exe in _cache:
        return _cache[exe]
    evs = _drive(exe, ["scn 0", "fmtenum major 0", "fmtenum subtype 0", "fmtenum simple 0"])
    counts = {e["kind"]: e["count"] for e in evs if e["op"] == "fmtenum"}
    lines = ["scn 0"]
    for k in ("major", "subtype", "simple"):
        for i in range(counts[k]):
            lines.append("fmtenum %s %d" % (k, i))
    evs = _drive(exe, lines)
    res = {"majors": [], "subtypes": [], "simple": []}
    for e in evs:
        if e["op"] != "fmtenum" or e["ret"] != 0:
            continue
        if e["kind"] == "major":
            res["majors"].append((e["fmt"], e["name"]))
        elif e["kind"] == "subtype":
            res["subtypes"].append((e["fmt"], e["name"]))
        else:
            res["simple"].append(e["fmt"])
    _cache[exe] = res
    return res


def writable(exe, chans=(1, 2), rate=8000, endians=(0,)):
    """all (fmt, ch) the library's sf_format_check accepts, from its own enumeration"""
    key = (exe, tuple(chans), rate, tuple(endians))
    if key in _cache:
        return _cache[key]
    en = enumerate_formats(exe)
    lines = ["scn 0"]
    for mj, _ in en["majors"]:
        for sb, _ in en["subtypes"]:
            for end in endians:
                for ch in chans:
                    lines.append("chk %d %d %d" % (mj | sb | end, ch, rate))
    evs = _drive(exe, lines)
    res = [(e["fmt"], e["ch"]) for e in evs if e["op"] == "chk" and e["chk"] == 1]
    _cache[key] = res
    return res


MAJOR_SD2 = 0x160000


def fmt_name(fmt):
    return "0x%08x" % fmt
