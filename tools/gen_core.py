"""Scenario generators for the handle-level properties (C01, C04, C05, C06, C07, C08, C09, C11, C19).
Inputs only -- all expectations are in spec/SfHandle.tla / spec/TraceCore.tla."""
import json, os, random, re
import vlib, scen, formats

SPEC = vlib.SPEC


def write_cfg(name, consts, invariants, constraint="Bound", extra=""):
    p = os.path.join(SPEC, name)
    with open(p, "w") as f:
        f.write("SPECIFICATION Spec\nCONSTANTS\n")
        for k, v in consts.items():
            f.write("  %s = %s\n" % (k, v))
        if constraint:
            f.write("CONSTRAINT %s\n" % constraint)
        f.write("INVARIANTS " + " ".join(invariants) + "\n" + extra)
    return name


RW_INVS = ["TypeOK", "PredAllowed", "C08_StoreLen", "C06_PosInFile", "C09_Atomic", "C09_Clean", "C05_Read", "C05_Write",
           "C08_WriteLands", "C08_SeekPointers", "C08_Truncate", "C08_Reopen"]
MODES = {"R": 16, "W": 32, "RW": 48}


def mc_rw(mode, pre, ch=1, maxframes=3, maxwrites=2, tag="q", timeout=1500):
    """quick tier ('q'): the replay alphabet (33 letters); thorough: the full alphabet (110 letters)"""
    alpha = '"gen"' if tag == "q" else '"full"'
    cfg = write_cfg("MC_rw_%s_%d_%s.cfg" % (mode, pre, tag),
                    dict(Mode=MODES[mode], Ch=ch, MaxFrames=maxframes, MaxWrites=maxwrites, Depth=0, GEN="FALSE", Pre=pre, Alpha=alpha), RW_INVS)
    r = vlib.model_check("MC_rw.tla", cfg, workers=vlib.NPROC, timeout=timeout)
    return r


def gen_rw(mode, pre, depth, ch=1, timeout=1500):
    """all call histories of length depth over the replay alphabet (TLC as generator)"""
    cfg = write_cfg("Gen_rw_%s_%d_%d.cfg" % (mode, pre, depth),
                    dict(Mode=MODES[mode], Ch=ch, MaxFrames=4, MaxWrites=3, Depth=depth, GEN="TRUE", Pre=pre, Alpha='"gen"'),
                    ["PredAllowed", "Emit"])
    rc, out = vlib.run_tlc("MC_rw.tla", cfg, workers=8, timeout=timeout, heap="8g")
    hists = []
    for m in re.finditer(r'<<"HIST", "(.*)">>', out):
        js = m.group(1).encode().decode("unicode_escape")
        hists.append(json.loads(js))
    if "Invariant PredAllowed is violated" in out:
        raise vlib.Infra("model error: prediction outside the allowed set")
    if not hists:
        raise vlib.Infra("generator produced no histories:\n" + vlib.tlc_errors(out))
    sm = re.findall(r"(\d+) states generated, (\d+) distinct states found", out)
    return hists, (int(sm[-1][0]), int(sm[-1][1])) if sm else (0, 0)


def type_for(fmt):
    s = scen.sub(fmt)
    if s == 6:
        return "f"
    if s == 7:
        return "d"
    return "s"


def tok_vals(T, fmt, toks):
    """map abstract tokens to concrete sample tokens the format keeps exactly for type T"""
    out = []
    for t in toks:
        if T == "s":
            out.append(str((t % 120) * 256))
        elif T == "i":
            out.append(str((t % 120) * 256 * 65536))
        elif T == "f":
            import struct
            out.append(str(struct.unpack("<i", struct.pack("<f", (t % 120) / 128.0))[0]))
        else:
            import struct
            b = struct.unpack("<q", struct.pack("<d", (t % 120) / 128.0))[0]
            hi, lo = (b >> 32), b & 0xFFFFFFFF
            if hi >= 2 ** 31:
                hi -= 2 ** 32
            out.append("%d:%d" % (hi, lo))
    return out


def hist_script(S, hist, fmt, ch, rate, mode, pre, route="fd", scale=1, cfg=None):
    """one TLC history -> one scenario on a concrete format"""
    T = type_for(fmt)
    S.scn(fmt="0x%x" % fmt, ch=ch, T=T, kind="hist", mode=mode, pre=pre, **(cfg or {}))
    rt = scen.route_for(fmt, route)
    S.add("file 1 new")
    if pre > 0:
        S.add("open 0 %s w 1 %d %d %d" % (rt, fmt, ch, rate))
        S.add("write 0 %s f %d %s" % (T, pre * scale, " ".join(tok_vals(T, fmt, [100 + i for i in range(1, pre * scale * ch + 1)]))))
        S.add("close 0")
    ofmt = fmt if (mode != "R" or scen.major(fmt) == scen.RAW) else 0
    S.add("open 0 %s %s 1 %d %d %d" % (rt, mode.lower(), ofmt, ch, rate))
    for st in hist:
        c = st["c"]
        op = c["op"]
        if op == "read":
            n = c["n"] * scale if c["unit"] == "f" else c["n"] * scale
            S.add("read 0 %s %s %d" % (T, c["unit"], n))
        elif op == "write":
            vals = c.get("v", [])
            if scale > 1:
                vals = [v + k for v in vals for k in range(scale)]
            n = c["n"] * scale
            S.add("write 0 %s %s %d %s" % (T, c["unit"], n, " ".join(tok_vals(T, fmt, vals))))
        elif op == "seek":
            S.add("seek 0 %d %d" % (c["off"] * scale, c["wh"]))
        elif op == "trunc":
            S.add("trunc 0 %d" % (c["n"] * scale))
        elif op == "reopen":
            S.add("close 0", "open 0 %s %s 1 %d %d %d" % (rt, mode.lower(), ofmt, ch, rate))
    # final observation: close, fresh read-only open, read everything
    S.add("close 0", "open 1 %s r 1 %d %d %d" % (rt, fmt if scen.major(fmt) == scen.RAW else 0, ch, rate), "read 1 %s f %d" % (T, 8 * scale), "close 1")


def wr_scenarios(S, fmt, ch, rate, Ts, Ns, rng, stale=0, splits=1, route="vio", seeks=True, cfg=None, read_T=None, classes=None):
    """write N frames (split over calls), close, re-open, read everything in odd pieces, seek around (C01/C04/C05/C06)"""
    B = scen.block_hint(fmt, ch, rate)
    for T in Ts:
        lc = scen.lossless_class(fmt, T)
        clss = classes or [lc if lc else ("noise", 0)]
        for (cls, par) in clss:
            for N in Ns:
                for sp in scen.splits(N, rng, kinds=splits):
                    S.scn(fmt="0x%x" % fmt, ch=ch, T=T, N=N, kind="wr", cls=cls, **(cfg or {}))
                    rt = scen.route_for(fmt, route)
                    S.add("file 1 new", "open 0 %s w 1 %d %d %d %d" % (rt, fmt, ch, rate, stale))
                    for p in sp:
                        S.add("write 0 %s f %d gen %s %d %d" % (T, p, cls, rng.randint(1, 10 ** 6), par))
                    S.add("close 0")
                    ofmt = fmt if scen.major(fmt) == scen.RAW else 0
                    S.add("open 1 %s r 1 %d %d %d" % (rt, ofmt, ch, rate))
                    RT = read_T or T
                    for c in scen.read_plan(N + min(B, 400) + 3, rng):
                        S.add("read 1 %s f %d" % (RT, c))
                    S.add("read 1 %s i %d" % (RT, 3 * ch))
                    if seeks:
                        for k in sorted(set([0, max(0, N // 2), max(0, N - 1), N, max(0, N - B), B, B - 1, B + 1])):
                            if k <= N:
                                S.add("seek 1 %d 0" % k, "read 1 %s f 3" % RT)
                    S.add("seek 1 0 1", "close 1")


def seek_read_scenarios(S, fmt, ch, rate, N, rng, steps=40, T=None, cfg=None):
    """C06: file of N frames; random (seek target, whence, read length, unit) sequences around block edges"""
    T = T or type_for(fmt)
    B = scen.block_hint(fmt, ch, rate)
    lc = scen.lossless_class(fmt, T)
    cls, par = lc if lc else ("noise", 0)
    S.scn(fmt="0x%x" % fmt, ch=ch, T=T, N=N, kind="seekread", **(cfg or {}))
    rt = scen.route_for(fmt)
    S.add("file 1 new", "open 0 %s w 1 %d %d %d" % (rt, fmt, ch, rate), "write 0 %s f %d gen %s %d %d" % (T, N, cls, rng.randint(1, 10 ** 6), par), "close 0")
    S.add("open 1 %s r 1 %d %d %d" % (rt, fmt if scen.major(fmt) == scen.RAW else 0, ch, rate))
    # one sequential pass first (defines the stream), in odd pieces
    for c in scen.read_plan(N + min(B, 400) + 3, rng):
        S.add("read 1 %s f %d" % (T, c))
    targets = sorted(set(k for k in [0, 1, B - 1, B, B + 1, 2 * B - 1, 2 * B, 2 * B + 1, N // 2, N - B, N - 2, N - 1, N] if 0 <= k <= N))
    for _ in range(steps):
        k = rng.choice(targets)
        wh = rng.choice([0, 0, 0, 1, 2, 16, 17, 18])
        if wh % 16 == 0:
            off = k
        elif wh % 16 == 2:
            off = k - N
        else:
            off = rng.choice([-B, -1, 0, 1, B, 3])
        S.add("seek 1 %d %d" % (off, wh))
        n = rng.choice([1, 2, 3, B, B + 1, 7])
        if rng.random() < 0.5:
            S.add("read 1 %s f %d" % (T, n))
        else:
            S.add("read 1 %s i %d" % (T, n * ch))
        if rng.random() < 0.3:
            S.add("seek 1 0 1")
    # seek pairs without a read in between (a seek may leave the codec one block ahead): end of data then back into the last block(s)
    for a, b in ((N, N - 1), (N, max(0, N - B)), (N, max(0, N - B - 1)), (0, N - 1), (N - 1, N), (N, 0)):
        if 0 <= a <= N and 0 <= b <= N:
            S.add("seek 1 %d 0" % a, "seek 1 %d 0" % b, "read 1 %s f %d" % (T, 2))
    S.add("close 1")


def rdwr_random(S, fmt, ch, rate, rng, steps=60, pre=0, route="fd", cfg=None):
    """C08: random RDWR call sequence"""
    T = type_for(fmt)
    lc = scen.lossless_class(fmt, T)
    cls, par = lc if lc else ("noise", 0)
    S.scn(fmt="0x%x" % fmt, ch=ch, T=T, kind="rdwr", pre=pre, **(cfg or {}))
    rt = scen.route_for(fmt, route)
    S.add("file 1 new")
    if pre:
        S.add("open 0 %s w 1 %d %d %d" % (rt, fmt, ch, rate), "write 0 %s f %d gen %s %d %d" % (T, pre, cls, rng.randint(1, 10 ** 6), par), "close 0")
    S.add("open 0 %s rw 1 %d %d %d" % (rt, fmt, ch, rate))
    est = pre
    for _ in range(steps):
        r = rng.random()
        if r < 0.3:
            n = rng.choice([1, 2, 3, 5, 16])
            S.add("write 0 %s f %d gen %s %d %d" % (T, n, cls, rng.randint(1, 10 ** 6), par))
            est += n
        elif r < 0.55:
            S.add("read 0 %s %s %d" % (T, "f", rng.choice([1, 2, 3, 7, 20])))
        elif r < 0.9:
            wh = rng.choice([0, 1, 2, 16, 17, 18, 32, 33, 34])
            base = wh % 16
            off = rng.randint(0, est + 2) if base == 0 else rng.randint(-3, 3) if base == 1 else rng.randint(-est - 1, 1)
            S.add("seek 0 %d %d" % (off, wh))
        elif r < 0.94 and rt != "vio":
            n = rng.randint(0, max(0, est))
            S.add("trunc 0 %d" % n)
            est = min(est, n)
        elif r < 0.97:
            S.add("cmd 0 UPDATE_HEADER_NOW 0")
        else:
            S.add("close 0", "open 0 %s rw 1 %d %d %d" % (rt, fmt, ch, rate))
    S.add("close 0", "open 1 %s r 1 %d %d %d" % (rt, fmt if scen.major(fmt) == scen.RAW else 0, ch, rate), "read 1 %s f %d" % (T, est + 10), "read 1 %s f 2" % T, "close 1")


def invalid_calls(S, fmt, ch, rate, mode, rng, cfg=None):
    """C09: every kind of invalid call interleaved with valid ones"""
    T = type_for(fmt)
    S.scn(fmt="0x%x" % fmt, ch=ch, T=T, kind="invalid", mode=mode, **(cfg or {}))
    rt = scen.route_for(fmt, "fd")
    S.add("file 1 new", "open 0 %s w 1 %d %d %d" % (rt, fmt, ch, rate), "write 0 %s f 6 gen tok 3 8" % T, "close 0")
    S.add("open 0 %s %s 1 %d %d %d" % (rt, mode, fmt, ch, rate))
    pool = ["read 0 %s i -1" % T, "read 0 %s f -2" % T, "write 0 %s i -1" % T, "read 0 %s i 0" % T, "write 0 %s f 0" % T,
            "seek 0 0 3", "seek 0 0 64", "seek 0 -1 0", "seek 0 1000000 0", "seek 0 1 2", "seek 0 0 49", "seek 0 0 50", "seek 0 2 33", "seek 0 2 17", "seek 0 -7 1",
            "cmd 0 12345678 0", "cmd 0 -1 0", "trunc 0 -1", "errq 0", "info 0",
            "read 0 %s f 2" % T, "write 0 %s f 2 gen tok 9 8" % T, "seek 0 1 0", "seek 0 0 1", "read 0 %s i %d" % (T, ch), "write 0 %s i %d gen tok 4 8" % (T, ch)]
    if ch > 1:
        pool += ["read 0 %s i 1" % T, "write 0 %s i 1 gen tok 2 8" % T, "read 0 %s i %d" % (T, ch + 1)]
    for _ in range(40):
        S.add(rng.choice(pool))
    S.add("errq 0", "close 0", "open 1 %s r 1 %d %d %d" % (rt, fmt if scen.major(fmt) == scen.RAW else 0, ch, rate), "read 1 %s f 30" % T, "close 1")


def invalid_probe(S, fmt, ch, rate, mode, rng, cfg=None):
    """C09, systematic: for every kind of invalid call x every caller type: put the handle in a state where read and write
    positions differ and the last operation was a read (or a write), issue the invalid call, then probe: a read (and a write in
    rw mode) must behave as if the invalid call had not happened (data compared by the validator)"""
    T0 = type_for(fmt)
    lc = scen.lossless_class(fmt, T0)
    cls, par = lc if lc else ("noise", 0)
    rt = scen.route_for(fmt, "fd")
    kinds = []
    for T in "sifd":
        kinds += ["read 0 %s i -1" % T, "write 0 %s i -3" % T, "read 0 %s f -2" % T, "write 0 %s f -1" % T]
        if ch > 1:
            kinds += ["read 0 %s i %d" % (T, ch + 1), "write 0 %s i 1 gen zeros 1 0" % T, "write 0 %s i %d gen zeros 1 0" % (T, 2 * ch + 1)]
        kinds += ["read 0 %s f 2" % T if mode == "w" else "write 0 %s f 2 gen zeros 1 0" % T if mode == "r" else "seek 0 0 64"]
    kinds += ["seek 0 0 3", "seek 0 -1 0", "seek 0 -1000 1", "seek 0 1 2" if mode == "r" else "seek 0 -100 2", "seek 0 0 49", "seek 0 2 33" if mode == "r" else "seek 0 2 17" if mode == "w" else "seek 0 0 50",
              "trunc 0 -1", "cmd 0 12345678 0"]
    if mode == "w" and not scen.is_granular(fmt):
        kinds += ["seek 0 1000000 0", "seek 0 1000000 32"]      # a block encoder refuses these; the refusal must not touch what is pending
    if mode == "rw" and not scen.is_granular(fmt):
        kinds += ["seek 0 1000000 16", "seek 0 1000000 32", "seek 0 1000000 0", "seek 0 5 18"]
    for last in ("read", "write"):
        S.scn(fmt="0x%x" % fmt, ch=ch, T=T0, kind="invprobe", mode=mode, last=last, **(cfg or {}))
        S.add("file 1 new", "open 0 %s w 1 %d %d %d" % (rt, fmt, ch, rate), "write 0 %s f 24 gen %s %d %d" % (T0, cls, rng.randint(1, 10 ** 6), par), "close 0")
        S.add("open 0 %s %s 1 %d %d %d" % (rt, mode, fmt, ch, rate))
        for k in kinds:
            if mode == "rw":
                S.add("seek 0 5 16", "seek 0 12 32")
                S.add("write 0 %s f 1 gen %s %d %d" % (T0, cls, rng.randint(1, 10 ** 6), par) if last == "write" else "read 0 %s f 2" % T0)
            elif mode == "r":
                S.add("seek 0 5 0", "read 0 %s f 2" % T0)
            S.add(k)
            S.add("errq 0")
            if mode != "w":
                S.add("read 0 %s f 3" % T0)
            if mode != "r":
                S.add("write 0 %s f 1 gen %s %d %d" % (T0, cls, rng.randint(1, 10 ** 6), par))
        S.add("close 0", "open 1 %s r 1 %d %d %d" % (rt, fmt if scen.major(fmt) == scen.RAW else 0, ch, rate), "read 1 %s f 60" % T0, "close 1")
    if mode != "w":
        # the same invalid read and write calls with the read position at the end of the data (reached by a read and by a seek) and on an empty file
        for how in ("read", "seek", "empty"):
            S.scn(fmt="0x%x" % fmt, ch=ch, T=T0, kind="invprobe_end", mode=mode, how=how, **(cfg or {}))
            S.add("file 1 new", "open 0 %s w 1 %d %d %d" % (rt, fmt, ch, rate))
            if how != "empty":
                S.add("write 0 %s f 24 gen %s %d %d" % (T0, cls, rng.randint(1, 10 ** 6), par))
            S.add("close 0", "open 0 %s %s 1 %d %d %d" % (rt, mode, fmt if scen.major(fmt) == scen.RAW else 0 if mode == "r" else fmt, ch, rate))
            for T in "sifd":
                ks = ["read 0 %s i -1" % T, "read 0 %s f -2" % T] + (["read 0 %s i %d" % (T, ch + 1), "read 0 %s i 1" % T] if ch > 1 else [])
                for k in ks:
                    S.add("read 0 %s f 30" % T0 if how == "read" else "seek 0 0 %d" % (2 if mode == "r" else 18))
                    S.add(k, "errq 0", "read 0 %s f 2" % T0)
            S.add("close 0")
