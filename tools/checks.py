"""The registered checks.  One function per property; each: rebuild, model check, generate, drive, validate (TLC), triage, evidence."""
import json, os, random, sys, time, collections, struct
import vlib, formats, scen, gen_core, gen_env, gen_c03, gen_conv, gen_seeds
from vlib import Infra, log

RATE = 8000


def _sample_scripts(lines, k=2):
    out, cur, n = [], [], 0
    for ln in lines:
        if ln.startswith("scn "):
            if cur:
                out.append(cur)
                n += 1
                if n >= k:
                    break
            cur = []
        cur.append(ln if len(ln) < 300 else ln[:300] + " ...")
    if cur and len(out) < k:
        out.append(cur)
    return out


def _distinct(lines):
    """distinct (format, kind, call-shape) combinations in a script"""
    seen = set()
    fmt = kind = None
    for ln in lines:
        t = ln.split()
        if t[0] == "scn":
            cfg = dict(kv.split("=", 1) for kv in t[2:] if "=" in kv)
            fmt, kind = cfg.get("fmt"), cfg.get("kind")
        elif t[0] in ("read", "write"):
            seen.add((fmt, kind, t[0], t[2], t[3], min(int(t[4]), 9999)))
        elif t[0] == "seek":
            seen.add((fmt, kind, "seek", t[3]))
        else:
            seen.add((fmt, kind, t[0]))
    return len(seen)


def _scn_cfgs(lines):
    out = {}
    for ln in lines:
        if ln.startswith("scn "):
            t = ln.split()
            out[int(t[1])] = dict(kv.split("=", 1) for kv in t[2:] if "=" in kv)
    return out


def core_check(prop, tier, mcs, lines, design_ref, what, t0, extra_cov=None, timeout=20, module="TraceCore.tla", cfg="TraceCore.cfg", passes=1, extra_parts=None):
    """shared tail: drive + validate + confirm + evidence.  mcs: list of model_check results"""
    exe = vlib.build()
    states = sum(m.get("distinct", 0) for m in mcs)
    trans = sum(m.get("generated", 0) for m in mcs)
    for m in mcs:
        if m.get("violation"):
            # a violated invariant of the bounded model means the specification itself is inconsistent: broken check
            raise Infra("bounded model violates its invariants:\n" + vlib.tlc_errors(m["out"]))
    merged = vlib.drive_and_validate(prop, tier, exe, lines, module=module, cfg=cfg, timeout=timeout, passes=passes)
    # the same scenario can be rejected in both passes: confirm each once
    uniq = {}
    for b in merged["bad"]:
        uniq.setdefault((b["script"], b["s"]), b)
    # confirm at most 12 rejected scenarios per (format, reason) class: the rest of a class is the same signature
    cfgs = _scn_cfgs(lines)
    perclass, todo, skipped = collections.Counter(), [], 0
    for b in uniq.values():
        key = (cfgs.get(b["s"], {}).get("fmt"), b["why"])
        perclass[key] += 1
        if perclass[key] <= 12:
            todo.append(b)
        else:
            skipped += 1
    confirmed = vlib.confirm_bad(prop, tier, exe, todo, module=module, cfg=cfg, timeout=timeout, passes=passes) if todo else []
    extra_cov = dict(extra_cov or {}, rejected_not_reconfirmed_same_class=skipped)
    # further parts of the same property judged by another validator module
    for (plines, pmod, pcfg, ptag) in (extra_parts or []):
        m2 = vlib.drive_and_validate(prop, tier, exe, plines, module=pmod, cfg=pcfg, timeout=timeout, tag=ptag)
        u2 = {}
        for b in m2["bad"]:
            u2.setdefault((b["script"], b["s"]), b)
        c2 = vlib.confirm_bad(prop, tier, exe, list(u2.values())[:60], module=pmod, cfg=pcfg, timeout=timeout) if u2 else []
        confirmed += c2
        for k in ("scenarios", "events", "lines", "tlc_states", "restarts"):
            merged[k] += m2.get(k, 0)
        merged["bad"] += m2["bad"]
        lines = lines + plines
    cov = {"states": states + merged["tlc_states"], "transitions": trans + merged["lines"],
           "model_states": states, "model_transitions": trans,
           "traces_validated_against_impl": merged["scenarios"], "evaluations": merged["events"],
           "distinct_nontrivial": _distinct(lines),
           "rule": what + "; distinct = distinct (format, scenario kind, call shape) triples in the executed scripts",
           "samples": _sample_scripts(lines), "rejected_first_pass": len(merged["bad"]), "rejected_confirmed": len(confirmed),
           "driver_restarts": merged["restarts"], "exhaustive": False}
    if extra_cov:
        cov.update(extra_cov)
    if merged["scenarios"] == 0 or merged["events"] == 0:
        raise Infra("vacuous run: no scenario executed")
    return vlib.finish(prop, tier, "model_checking", cov, t0, confirmed,
                       assumptions=["the driver sfdrive reports what the library returned (its observations are not interpreted)",
                                    "TLC evaluates spec/%s correctly" % module, "scenario inputs are bounded as listed in 'rule'"])


def _fmts(exe, tier, chans):
    return formats.writable(exe, chans=chans, rate=RATE)


def _fmts_endian(exe, chans):
    """(fmt | explicit endian option, ch) accepted by the library, for the encodings where byte order means something"""
    return [(f, c) for f, c in formats.writable(exe, chans=chans, rate=RATE, endians=(0x10000000, 0x20000000, 0x30000000)) if scen.sub(f) in (2, 3, 4, 6, 7)]


# ---------------------------------------------------------------------------------------------
def c01(tier):
    t0 = time.time()
    exe = vlib.build()
    rng = random.Random(vlib.SEED)
    S = scen.Script()
    chans = (1, 2) if tier == "quick" else (1, 2, 3, 8)
    for fmt, ch in _fmts(exe, tier, chans):
        B = scen.block_hint(fmt, ch, RATE)
        for T in "sifd":
            lc = scen.lossless_class(fmt, T)
            if not lc:
                continue
            Ns = sorted(set([0, 1, 2, B - 1, B, B + 1, 2 * B + 1])) if tier == "quick" else sorted(set([0, 1, 2, 3, B - 1, B, B + 1, 2 * B - 1, 2 * B + 1] + ([4095, 4097, 8193] if ch <= 2 else [1025])))
            Ns = [n for n in Ns if n >= 0]
            steps = [("steps", lc[1])] if T in "si" else []
            classes = [lc] + steps if tier == "quick" else [lc, ("ext", 0) if lc[1] == 0 else lc, ("zeros", 0), ("ramp", 0) if lc[1] == 0 else lc] + steps
            classes = list(dict.fromkeys(classes))
            gen_core.wr_scenarios(S, fmt, ch, RATE, [T], Ns, rng, splits=0 if tier == "quick" else 2, seeks=False, classes=classes)
    # channel counts that are not powers of two with calls above the 2048 / 4096 / 8192 item staging buffers
    if tier == "quick":
        for fmt, ch in _fmts(exe, tier, (3, 5)):
            for T in "sifd":
                lc = scen.lossless_class(fmt, T)
                if lc:
                    gen_core.wr_scenarios(S, fmt, ch, RATE, [T], [2750 if ch == 3 else 1700], rng, splits=0, seeks=False, classes=[lc])
    # every endianness option (LITTLE, BIG, CPU) of the multi-byte encodings the container accepts it for
    for fmt, ch in _fmts_endian(exe, chans):
        for T in "sifd":
            lc = scen.lossless_class(fmt, T)
            if lc:
                gen_core.wr_scenarios(S, fmt, ch, RATE, [T], [0, 5, 300] if tier == "quick" else [0, 1, 5, 300, 4097], rng, splits=0 if tier == "quick" else 1, seeks=False,
                                      classes=[lc], cfg={"en": fmt >> 28})
    mcs = [gen_core.mc_rw("W", 0, tag=tier[0], maxwrites=1 if tier == "quick" else 2)]
    return core_check("C01", tier, mcs, S.lines, "DESIGN.md section 6 C01",
                      "every (major, subtype) the library enumerates and sf_format_check accepts x channels x caller type for which the spec's Lossless() holds x N around block edges x value classes; write, close, re-open, read back, equality decided by TraceCore (ReadOK against the content written)", t0)


def c04(tier):
    t0 = time.time()
    exe = vlib.build()
    rng = random.Random(vlib.SEED)
    S = scen.Script()
    chans = (1, 2) if tier == "quick" else (1, 2, 5)
    rates = [RATE, 16777217, 2147483647] if tier == "quick" else [RATE, 1, 7, 44100, 65535, 65536, 16777216, 16777217, 20000000, 2147483647]
    for rate in rates:
        for fmt, ch in formats.writable(exe, chans=chans, rate=rate):
            B = scen.block_hint(fmt, ch, rate)
            Ns = sorted(set(n for n in [0, 1, B - 1, B, B + 1, 3, 2 * B + 1, 701] if n >= 0))
            if rate != RATE:
                Ns = sorted(set(n for n in [1, B - 1, B + 1] if n >= 1))      # just below a block: a header that disagrees with the codec's block size shows as F < N
            for stale in ([0, 1000000000] if tier == "quick" else [0, 1, 1000000000]):
                gen_core.wr_scenarios(S, fmt, ch, rate, ["s"] if stale else ["s", "f"], Ns, rng, stale=stale, splits=1 if tier == "quick" else 3, seeks=False,
                                      cfg={"stale": stale, "rate": rate})
    # three channels, every caller type, one call above the 2048 item staging buffers; N = 10 k + 1 so that a lost frame shows
    for fmt, ch in formats.writable(exe, chans=(3,), rate=RATE):
        gen_core.wr_scenarios(S, fmt, ch, RATE, ["s", "i", "f", "d"], [701], rng, splits=0, seeks=False, cfg={"stale": 0, "rate": RATE})
    # byte order options: the re-opened file reports the same effective byte order (InfoMatches / EffOrder) and the same count
    for fmt, ch in _fmts_endian(exe, (1, 2)):
        gen_core.wr_scenarios(S, fmt, ch, RATE, ["s", "f"] if tier != "quick" else ["s"], [1, 33], rng, splits=0, seeks=False, cfg={"en": fmt >> 28, "stale": 0, "rate": RATE})
    mcs = [gen_core.mc_rw("W", 0, tag=tier[0], maxwrites=1 if tier == "quick" else 2)]
    return core_check("C04", tier, mcs, S.lines, "DESIGN.md section 6 C04",
                      "all writable formats x channels x rates x N in {0,1,B-1,B,B+1,..} x splits x stale SF_INFO.frames; re-open must report the parameters and N <= F < N+B, reads deliver F frames then 0 (OpenWrittenOK, ReadOK)", t0)


def c05(tier):
    t0 = time.time()
    exe = vlib.build()
    rng = random.Random(vlib.SEED)
    S = scen.Script()
    chans = (1, 2) if tier == "quick" else (1, 2, 3)
    sizes = [1, 2, 3, 7, 2047, 2049, 4097] if tier == "quick" else [1, 2, 3, 5, 7, 63, 64, 65, 2047, 2048, 2049, 4095, 4096, 4097, 8193]
    for fmt, ch in _fmts(exe, tier, chans):
        B = scen.block_hint(fmt, ch, RATE)
        N = 2 * B + 5 if B > 1 else 300
        for T in ("sifd" if tier != "quick" else "sf"):
            lc = scen.lossless_class(fmt, T)
            cls, par = lc if lc else ("noise", 0)
            S.scn(fmt="0x%x" % fmt, ch=ch, T=T, N=N, kind="sizes")
            rt = scen.route_for(fmt)
            S.add("file 1 new", "open 0 %s w 1 %d %d %d" % (rt, fmt, ch, RATE))
            # write in pieces of assorted sizes (items and frames variants)
            left = N
            while left > 0:
                p = min(left, rng.choice([1, 2, 3, B - 1 if B > 2 else 5, B + 1, 61]))
                if rng.random() < 0.5:
                    S.add("write 0 %s f %d gen %s %d %d" % (T, p, cls, rng.randint(1, 10 ** 6), par))
                else:
                    S.add("write 0 %s i %d gen %s %d %d" % (T, p * ch, cls, rng.randint(1, 10 ** 6), par))
                left -= p
                if rng.random() < 0.15:      # a header update must not move where the next items go
                    S.add("cmd 0 UPDATE_HEADER_NOW 0")
            S.add("close 0", "open 1 %s r 1 %d %d %d" % (rt, fmt if scen.major(fmt) == scen.RAW else 0, ch, RATE))
            for pos in (0, B // 2 if B > 1 else 17, N - 1, N):
                for sz in rng.sample(sizes, 3 if tier == "quick" else 6):
                    S.add("seek 1 %d 0" % pos)
                    if rng.random() < 0.5:
                        S.add("read 1 %s i %d" % (T, sz * ch))
                    else:
                        S.add("read 1 %s f %d" % (T, sz))
            # sequential to the end and beyond, then raw reads on sample-granular encodings
            S.add("seek 1 0 0")
            for c in scen.read_plan(N + B + 3, rng):
                S.add("read 1 %s f %d" % (T, c))
            S.add("read 1 %s f 4" % T, "read 1 %s i %d" % (T, ch))
            if scen.is_granular(fmt):
                S.add("seek 1 0 0", "read 1 r i %d" % (3 * ch * 8), "read 1 r i 5", "read 1 r i %d" % (100000))
            S.add("close 1")
    # requests larger than the 8 KiB staging buffers with more data following (every encoding, all four caller types)
    bigs = [8193, 10000, 12289, 16385] if tier == "quick" else [4097, 8191, 8193, 10000, 12289, 16383, 16385, 20001]
    for fmt, ch in _fmts(exe, tier, (1, 2, 3)):
        if scen.major(fmt) == scen.SD2:
            continue
        B = scen.block_hint(fmt, ch, RATE)
        T0 = gen_core.type_for(fmt)
        lc = scen.lossless_class(fmt, T0)
        cls, par = lc if lc else ("noise", 0)
        N = 45000 // ch if ch < 3 else 3500
        # (three channels: shorter file, floats logged as dyadics so that reads through every type are compared with the written integers)
        S.scn(fmt="0x%x" % fmt, ch=ch, T=T0, N=N, kind="bigreq", nodata=0, fmode=1 if ch == 3 else 0)
        S.add("file 1 new", "open 0 vio w 1 %d %d %d" % (fmt, ch, RATE), "write 0 %s f %d gen %s %d %d" % (T0, N, cls, rng.randint(1, 10 ** 6), par), "close 0",
              "open 1 vio r 1 %d %d %d" % (fmt if scen.major(fmt) == scen.RAW else 0, ch, RATE))
        for T in "sifd":
            sz = rng.choice(bigs)
            S.add("seek 1 0 0", "read 1 %s i %d" % (T, (sz // ch) * ch), "read 1 %s f 3" % T, "seek 1 0 1")
        # the last staging chunk of a call starts exactly at the end of the data: seek to F - k*2048 items, ask for more than is left
        F = -(-N // B) * B if B > 1 else N
        for T in "sifd":
            for st in ((2048, 4096, 8192) if tier == "quick" else (1024, 2048, 4096, 8192, 16384)):
                if st % ch == 0 and F - st // ch >= 0:
                    S.add("seek 1 %d 0" % (F - st // ch), "read 1 %s f %d" % (T, st // ch + 301), "read 1 %s f 2" % T)
        S.add("close 1")
    mcs = [gen_core.mc_rw("R", 2, tag=tier[0]), gen_core.mc_rw("W", 0, tag=tier[0], maxwrites=1 if tier == "quick" else 2)]
    return core_check("C05", tier, mcs, S.lines, "DESIGN.md section 6 C05",
                      "all formats x channels x caller types x item/frame/raw variants x request sizes (1, odd, block+-1, staging buffer edges 2047..4097, beyond the end) x positions (0, mid block, F-1, F); guard-banded buffers, ASan", t0)


def c06(tier):
    t0 = time.time()
    exe = vlib.build()
    rng = random.Random(vlib.SEED)
    S = scen.Script()
    chans = (1, 2) if tier == "quick" else (1, 2, 3)
    ok3 = set(_fmts(exe, tier, (3,))) if tier == "quick" else set()
    for fmt, ch in _fmts(exe, tier, chans):
        B = scen.block_hint(fmt, ch, RATE)
        N = 2 * B + 1 if B > 1 else 97
        Ts = [gen_core.type_for(fmt)] if tier == "quick" else list(dict.fromkeys([gen_core.type_for(fmt), "i", "f"]))
        for T in Ts:
            gen_core.seek_read_scenarios(S, fmt, ch, RATE, N, rng, steps=25 if tier == "quick" else 80, T=T)
        if ch == 2 and (fmt, 3) in ok3:     # three channels: reads above the staging buffers through a type the codec has to convert
            for T3 in ("s", "d"):
                gen_core.seek_read_scenarios(S, fmt, 3, RATE, 900, rng, steps=6, T=T3, cfg={"fmode": 1})
        if B > 1:          # a file that ends exactly on a block boundary
            gen_core.seek_read_scenarios(S, fmt, ch, RATE, 2 * B, rng, steps=10 if tier == "quick" else 40, T=Ts[0])
    # TLC-generated histories (all seek/read sequences over the replay alphabet) on read handles
    depth = 3 if tier == "quick" else 4
    hists, gst = gen_core.gen_rw("R", 3, depth)
    if tier == "thorough":      # depth 4 gives ~10^6 histories: every 100th (offset by the seed) on each format
        hists = hists[vlib.SEED % 100::100]
    fam = [0x10002, 0x20001, 0x30006, 0x180004, 0xb0007] if tier == "quick" else [f for f, c in _fmts(exe, tier, (1,)) if scen.block_hint(f, 1, RATE) == 1][::3]
    for fmt in fam:
        for h in hists:
            gen_core.hist_script(S, h, fmt, 1, RATE, "R", 3)
    mcs = [gen_core.mc_rw("R", 2, tag=tier[0]), {"distinct": gst[1], "generated": gst[0]}]
    return core_check("C06", tier, mcs, S.lines, "DESIGN.md section 6 C06",
                      "every writable format: one sequential pass then random (seek target at block edges, whence, read length, unit) sequences; plus all TLC-enumerated seek/read histories of depth %d (%d histories) on %d formats" % (depth, len(hists), len(fam)),
                      t0, extra_cov={"tlc_histories": len(hists), "history_depth": depth})


def c08(tier):
    t0 = time.time()
    exe = vlib.build()
    rng = random.Random(vlib.SEED)
    S = scen.Script()
    # C08 quantifies over the sample-granular encodings (block codecs accept an RDWR open but refuse all I/O)
    allf = [f for f, c in _fmts(exe, tier, (1,)) if scen.is_granular(f)]
    for fmt in allf:
        for ch in ((1, 2) if tier == "quick" else (1, 2, 4)):
            for pre in (0, 20):
                for rep in range(1 if tier == "quick" else 4):
                    gen_core.rdwr_random(S, fmt, ch, RATE, rng, steps=50 if tier == "quick" else 150, pre=pre, route="fd")
    for fmt in allf:
        for ch in (1, 2):
            T = gen_core.type_for(fmt)
            lc = scen.lossless_class(fmt, T)
            cls, par = lc if lc else ("noise", 0)
            for pre, cut, after in ((7, 3, None), (8, 5, None), (9, 9, None), (7, 2, "read"), (11, 4, "seek"), (6, 1, "write")):
                S.scn(fmt="0x%x" % fmt, ch=ch, T=T, kind="truncreopen", pre=pre, cut=cut)
                S.add("file 1 new", "open 0 fd w 1 %d %d %d" % (fmt, ch, RATE), "write 0 %s f %d gen %s %d %d" % (T, pre, cls, rng.randint(1, 10 ** 6), par), "close 0",
                      "open 0 fd rw 1 %d %d %d" % (fmt, ch, RATE), "trunc 0 %d" % cut)
                if after == "read":
                    S.add("seek 0 0 16", "read 0 %s f 2" % T)
                elif after == "seek":
                    S.add("seek 0 1 0")
                elif after == "write":
                    S.add("seek 0 0 32", "write 0 %s f 1 gen %s %d %d" % (T, cls, rng.randint(1, 10 ** 6), par))
                S.add("close 0", "open 1 fd r 1 %d %d %d" % (fmt if scen.major(fmt) == scen.RAW else 0, ch, RATE), "read 1 %s f %d" % (T, pre + 3), "close 1")
    for fmt in allf:
        T = gen_core.type_for(fmt)
        lc = scen.lossless_class(fmt, T)
        cls, par = lc if lc else ("noise", 0)
        for pre in (7, 8):
            S.scn(fmt="0x%x" % fmt, ch=1, T=T, kind="overread_append", pre=pre)
            S.add("file 1 new", "open 0 fd w 1 %d 1 %d" % (fmt, RATE), "write 0 %s f %d gen %s %d %d" % (T, pre, cls, rng.randint(1, 10 ** 6), par), "close 0",
                  "open 0 fd rw 1 %d 1 %d" % (fmt, RATE), "read 0 %s f 50" % T, "write 0 %s f 3 gen %s %d %d" % (T, cls, rng.randint(1, 10 ** 6), par),
                  "seek 0 %d 16" % (pre - 1), "read 0 %s f 9" % T, "close 0",
                  "open 1 fd r 1 %d 1 %d" % (fmt if scen.major(fmt) == scen.RAW else 0, RATE), "read 1 %s f %d" % (T, pre + 8), "close 1")
    for fmt in allf:
        for T in sorted(set(["s", gen_core.type_for(fmt)])):
            lc = scen.lossless_class(fmt, T)
            if not lc:
                continue
            S.scn(fmt="0x%x" % fmt, ch=1, T=T, kind="rwbigwrite")
            S.add("file 1 new", "open 0 fd w 1 %d 1 %d" % (fmt, RATE), "write 0 %s f 150 gen %s %d %d" % (T, lc[0], rng.randint(1, 10 ** 6), lc[1]), "close 0",
                  "open 0 fd rw 1 %d 1 %d" % (fmt, RATE), "seek 0 100 32", "write 0 %s f 9000 gen %s %d %d" % (T, lc[0], rng.randint(1, 10 ** 6), lc[1]),
                  "seek 0 90 16", "read 0 %s f 9100" % T, "close 0",
                  "open 1 fd r 1 %d 1 %d" % (fmt if scen.major(fmt) == scen.RAW else 0, RATE), "read 1 %s f 9200" % T, "close 1")
    depth = 3 if tier == "quick" else 4
    fam = [0x10002, 0x20004, 0x30006, 0x40001, 0x180003] if tier == "quick" else [0x10002, 0x10005, 0x10006, 0x20004, 0x30007, 0x40001, 0x180003, 0xb0002, 0x220002, 0x50002, 0x70003, 0xa0006, 0xc0007, 0xd0004]
    nh = 0
    gsts = []
    for pre in (0, 2):
        hists, gst = gen_core.gen_rw("RW", pre, depth)
        gsts.append(gst)
        if tier == "thorough":
            hists = hists[vlib.SEED % 60::60]
        nh += len(hists)
        for fmt in fam:
            for h in hists:
                gen_core.hist_script(S, h, fmt, 1, RATE, "RW", pre)
    mcs = [gen_core.mc_rw("RW", 0, tag=tier[0], maxwrites=1 if tier == "quick" else 2), gen_core.mc_rw("RW", 2, tag=tier[0], maxwrites=1 if tier == "quick" else 2)]
    mcs += [{"distinct": g[1], "generated": g[0]} for g in gsts]
    return core_check("C08", tier, mcs, S.lines, "DESIGN.md section 6 C08",
                      "all TLC-enumerated RDWR histories of depth %d over {write, read, seek x whence x {plain,|READ,|WRITE}, truncate, re-open} from an empty and a pre-populated file (%d histories) on %d formats; seeded random RDWR sequences on every format (open RDWR is tried on all of them, the library decides)" % (depth, nh, len(fam)),
                      t0, extra_cov={"tlc_histories": nh, "history_depth": depth})


def c09(tier):
    t0 = time.time()
    exe = vlib.build()
    rng = random.Random(vlib.SEED)
    S = scen.Script()
    fmts = [0x10002, 0x20004, 0x30006, 0x10012, 0x180002, 0x40011, 0x50003, 0x110002, 0x10013, 0x20041, 0x180070, 0x30030, 0xf0051] if tier == "quick" else [f for f, c in _fmts(exe, tier, (1,))]
    for fmt in fmts:
        for ch in (1, 2):
            for mode in ("r", "w", "rw"):
                for rep in range(2 if tier == "quick" else 5):
                    gen_core.invalid_calls(S, fmt, ch, RATE, mode, rng)
                gen_core.invalid_probe(S, fmt, ch, RATE, mode, rng)
    # invalid metadata calls after valid ones: empty text, unknown string types, sets after the audio, sets on a read handle;
    # what was stored before must come back after close and re-open (SetMetaPost keeps the model's metadata on failure)
    for fmt in [0x10002, 0x20002, 0x180002, 0x220002, 0x130002] + ([] if tier == "quick" else [0x10006, 0x20004, 0x180006, 0xb0002, 0x30002]):
        for ch in (1, 2):
            S.scn(fmt="0x%x" % fmt, ch=ch, T="s", kind="metainv")
            S.add("file 1 new", "open 0 vio w 1 %d %d %d" % (fmt, ch, RATE))
            for ty, tx in ((1, b"Title"), (2, b"Copyright"), (4, b"Artist"), (5, b"Comment"), (6, b"2001-02-03")):
                S.add("setstr 0 %d %s" % (ty, tx.hex()))
            S.add("setmeta 0 cues 3 4 2")
            for ty in (1, 4, 6):
                S.add("setstr 0 %d -" % ty, "errq 0", "getstr 0 %d" % ty)
            S.add("setstr 0 0 4142", "setstr 0 99 4142", "setstr 0 -1 4142", "getstr 0 99", "errq 0")
            S.add("write 0 s f 20 gen lbz %d 0" % rng.randint(1, 10 ** 6))
            S.add("setstr 0 2 -", "setstr 0 5 -", "setmeta 0 cues 7 2 1", "setmeta 0 bext 3 5 10", "errq 0", "write 0 s f 3 gen lbz %d 0" % rng.randint(1, 10 ** 6), "close 0")
            S.add("open 1 vio r 1 0 %d %d" % (ch, RATE))
            S.add("setstr 1 1 58595a", "errq 1", "setmeta 1 cues 9 2 1", "errq 1")
            for ty in (1, 2, 3, 4, 5, 6):
                S.add("getstr 1 %d" % ty)
            S.add("getmeta 1 cues 0 0", "read 1 s f 30", "close 1")
    # a structured item that is refused for its size after a valid one: what was stored first must come back after close and re-open
    for fmt in (0x10002, 0x130002, 0x220002):
        for kind_ in ("bext", "cart"):
            S.scn(fmt="0x%x" % fmt, ch=1, T="s", kind="metainv2", item=kind_)
            S.add("file 1 new", "open 0 vio w 1 %d 1 %d" % (fmt, RATE), "setmeta 0 %s 4 9 30" % kind_, "setmeta 0 %s 7 5 20000" % kind_, "errq 0", "setmeta 0 %s 8 3 70000" % kind_, "errq 0",
                  "write 0 s f 20 gen lbz %d 0" % rng.randint(1, 10 ** 6), "close 0", "open 1 vio r 1 0 1 %d" % RATE, "getmeta 1 %s 0 0" % kind_, "read 1 s f 25", "close 1")
    # failing opens that go through the resource fork reader: the fork cut short at every length
    S.scn(fmt="0x160002", ch=1, kind="badopen_sd2", relax=1)
    S.add("file 1 new", "open 0 path w 1 %d 1 %d" % (0x160002, RATE), "write 0 s f 20 gen noise 5 0", "close 0")
    for n in list(range(0, 40)) + [64, 128, 256]:
        S.add("rsrc 1 %d" % (-2 - n), "open 1 path r 1 0 0 0", "close 1", "rsrc 1 -1")
    # failing opens: unknown formats, zero channels, garbage input
    S.scn(kind="badopen")
    S.add("file 1 new", "open 0 vio w 1 0 1 8000", "open 0 vio w 1 0x10002 0 8000", "open 0 vio w 1 0x10002 1 0", "open 0 vio w 1 0x19990002 1 8000",
          "open 0 fd w 1 0x10099 1 8000", "open 0 path w 1 0x10002 2000 8000", "file 2 hex 00112233445566778899aabbccddeeff00112233", "open 0 vio r 2 0 0 0", "open 0 fd r 2 0 0 0",
          "open 0 path r 2 0 0 0", "open 0 fdk r 2 0 0 0", "errq -1")
    S.scn(kind="errtab")
    S.add("errtab 0 200", "errtab -5 -1", "errtab 1000 1010")
    depth = 3 if tier == "quick" else 4
    nh = 0
    gsts = []
    for mode in ("R", "W", "RW"):
        hists, gst = gen_core.gen_rw(mode, 2 if mode != "W" else 0, depth)
        gsts.append(gst)
        if tier == "quick":      # the invalid-call clauses are format independent: every 3rd history on one format per run
            hists = hists[vlib.SEED % 3::3]
        else:
            hists = hists[vlib.SEED % 40::40]
        nh += len(hists)
        for fmt in ([0x10002] if tier == "quick" else [0x10002, 0x30006, 0x20004, 0x180003]):
            for h in hists:
                gen_core.hist_script(S, h, fmt, 1, RATE, mode, 2 if mode != "W" else 0)
    mcs = [gen_core.mc_rw("R", 2, tag=tier[0]), gen_core.mc_rw("W", 0, tag=tier[0], maxwrites=1), gen_core.mc_rw("RW", 2, tag=tier[0], maxwrites=1)]
    mcs += [{"distinct": g[1], "generated": g[0]} for g in gsts]
    return core_check("C09", tier, mcs, S.lines, "DESIGN.md section 6 C09",
                      "invalid calls of every kind (wrong mode, misaligned and negative counts, unknown whence, out-of-range seeks, unknown commands) interleaved with valid ones in the three modes; all TLC histories of depth %d incl. invalid letters (%d); failing opens; error-number table 0..200 (ErrTabOK)" % (depth, nh),
                      t0, extra_cov={"tlc_histories": nh, "history_depth": depth})


def c07(tier):
    t0 = time.time()
    exe = vlib.build()
    rng = random.Random(vlib.SEED)
    S = scen.Script()
    chans = (1, 2) if tier == "quick" else (1, 2, 3)
    for fmt, ch in _fmts(exe, tier, chans):
        B = scen.block_hint(fmt, ch, RATE)
        Ns = ([2 * B, 2 * B + 1] if B > 1 else [23]) if tier == "quick" else [1, B, B + 1, 2 * B, 2 * B + 1 if B > 1 else 23, 4100]
        for N in Ns:
            gen_env.c07_scenarios(S, fmt, ch, RATE, N, rng, nparts=8 if tier == "quick" else 14,
                                  Ts=None if tier == "quick" else list(dict.fromkeys([gen_core.type_for(fmt), "s", "f"])))
    # three channels: one call above the staging buffers against small pieces, through every caller type
    for fmt, ch in _fmts(exe, tier, (3,)):
        if scen.major(fmt) != scen.SD2:
            gen_env.c07_scenarios(S, fmt, ch, RATE, 800, rng, nparts=2, Ts=["s", "i", "f", "d"])
    # one byte encodings: their staging buffer holds 8192 items, one call above that against small pieces through every caller type
    for fmt, ch in _fmts(exe, tier, (1,)):
        if scen.sub(fmt) in (1, 5, 0x10, 0x11) and scen.major(fmt) != scen.SD2:
            gen_env.c07_scenarios(S, fmt, ch, RATE, 9000, rng, nparts=2, Ts=["s", "i", "f", "d"])
    # float / double encodings through every caller type with calls larger than the staging buffers (PEAK bookkeeping per chunk)
    for fmt, ch in _fmts(exe, tier, (1, 2) if tier == "quick" else (1, 2, 3)):
        if scen.sub(fmt) in (6, 7) and scen.major(fmt) != scen.SD2:
            gen_env.c07_scenarios(S, fmt, ch, RATE, 3000 if tier == "quick" else 9000, rng, nparts=4, Ts=["s", "i", "f", "d"])
            gen_env.c07_scenarios(S, fmt, ch, RATE, 2500 if tier == "quick" else 7000, rng, nparts=4, Ts=["s", "i"], late_max=True)
    mcs = [gen_core.mc_rw("W", 0, tag=tier[0], maxwrites=2)]
    return core_check("C07", tier, mcs, S.lines, "DESIGN.md section 6 C07",
                      "every writable format x channels: the same sample sequence written under several partitions (one call, 1+rest, rest+1, all ones, random odd pieces incl. > staging buffer), item and frame variants mixed, SFC_UPDATE_HEADER_NOW interleaved; the whole script executed twice in separate processes; byte identity decided by TraceCore (SameBytesOK within a run, CanonOK across processes), clock pinned",
                      t0, passes=2)


def c11(tier):
    t0 = time.time()
    exe = vlib.build()
    rng = random.Random(vlib.SEED)
    S = scen.Script()
    chans = (1, 2) if tier == "quick" else (1, 2, 3)
    for fmt, ch in _fmts(exe, tier, chans):
        if scen.major(fmt) == scen.SD2 or scen.sub(fmt) in (0x70, 0x71, 0x72, 0x73):
            continue          # SD2 keeps its header in a second file; ALAC is assembled at close (outside the guarantee)
        for auto in (0, 1):
            for rep in range(1 if tier == "quick" else 3):
                gen_env.c11_scenarios(S, fmt, ch, RATE, rng, auto, nsteps=3 if tier == "quick" else 6)
                if scen.is_granular(fmt):
                    gen_env.c11_overwrite(S, fmt, ch, RATE, rng, auto)
    mcs = [gen_core.mc_rw("W", 0, tag=tier[0], maxwrites=2)]
    return core_check("C11", tier, mcs, S.lines, "DESIGN.md section 6 C11",
                      "every format with a vio-writable header (ALAC and SD2 excluded) x channels x {explicit SFC_UPDATE_HEADER_NOW, auto mode}: after every update the backing store is copied and opened by a second handle: parameters, frame count = whole blocks of the frames written so far (FramesInImage), data = prefix (shared content), and the finished file is byte identical to a twin written without updates",
                      t0)


def c19(tier):
    t0 = time.time()
    exe = vlib.build()
    rng = random.Random(vlib.SEED)
    S = scen.Script()
    allf = [(f, c) for f, c in _fmts(exe, tier, (1, 2)) if scen.major(f) != scen.SD2]
    fam = [(0x10012, 1), (0x10013, 2), (0x10020, 1), (0x30030, 1), (0x30031, 1), (0x10022, 1), (0x180070, 2), (0x40021, 1), (0x20042, 1), (0x50003, 2), (0x110002, 1), (0xf0051, 1), (0x10010, 2), (0x10006, 2), (0x20003, 1)]
    n = 40 if tier == "quick" else 300
    for i in range(n):
        k = rng.choice([2, 2, 3, 4, 8])
        if i % 3 == 0:
            f = rng.choice(fam)
            pick = [f] * k           # same codec in every handle
        elif i % 3 == 1:
            pick = [rng.choice(fam) for _ in range(k)]
        else:
            pick = [rng.choice(allf) for _ in range(k)]
        gen_env.c19_scenario(S, pick, RATE, rng, "rr" if i % 4 == 0 else "random")
    for fmt, ch in (fam if tier == "quick" else allf):
        gen_env.c19_readers(S, fmt, ch, RATE, rng, nreaders=3)
    # every encoding: readers of different files of the same kind, interleaved seeks across all blocks
    for fmt, ch in ([x for x in allf if x[1] == 1] if tier == "quick" else allf):
        gen_env.c19_codec_pairs(S, fmt, ch, RATE, rng, k=2 if tier == "quick" else 3, steps=12 if tier == "quick" else 30)
    # Sound Designer II writers one after the other in one process, parameters with more and more digits (they are written as text)
    sd2ok = set(formats.writable(exe, chans=(1, 2), rate=RATE))
    if (0x160002, 1) in sd2ok:
        S.scn(fmt="0x160002", ch=1, T="s", kind="c19sd2")
        sd = rng.randint(1, 10 ** 6)      # (the second and the last file are the same workload: byte identical, resource fork included)
        for k, (fm, chn, rate) in enumerate(((0x160001, 1, 1), (0x160002, 2, 8000), (0x160003, 1, 192000), (0x160002, 12, 44100), (0x160002, 2, 8000))):
            S.add("file %d new" % (k + 1), "open 0 path w %d %d %d %d" % (k + 1, fm, chn, rate), "write 0 s f 33 gen lbz %d 8" % sd, "close 0",
                  "open 1 path r %d 0 0 0" % (k + 1), "read 1 s f 40", "close 1")
    # per-handle settings stay per handle (every setter command on another handle of the same and of another encoding)
    setB = [0x10006, 0x20006, 0x30006, 0x40006, 0x10007, 0x180007, 0x10002, 0x20003, 0x30010] if tier == "quick" else [f for f, c in allf if c == 1]
    for fb in setB:
        for fa in (fb, 0x10006 if scen.sub(fb) != 6 else 0x10002):
            gen_env.c19_settings(S, fb, fa, RATE, rng)
    # earlier library use = parsing arbitrary (mutated) files of the same codec: reader undisturbed, later writer byte identical
    od = os.path.join(vlib.ROOT, "out", "C19", tier)
    os.makedirs(od, exist_ok=True)
    ff = [x for x in allf if x[1] == 1 and scen.route_for(x[0]) == "vio"] if tier == "quick" else [x for x in allf if scen.route_for(x[0]) == "vio"]
    fseeds = gen_c03.seed_files(exe, ff, RATE, od, nframes=lambda f, c: min(2 * scen.block_hint(f, c, RATE) + 5, 9000) if scen.block_hint(f, c, RATE) > 1 else 200, meta=False, tag="c19seed")
    gen_env.c19_foreign(S, fseeds, RATE, rng, nmut=12 if tier == "quick" else 40)
    mcs = [gen_core.mc_rw("RW", 2, tag=tier[0], maxwrites=1)]
    return core_check("C19", tier, mcs, S.lines, "DESIGN.md section 6 C19",
                      "2..8 handles on distinct backing stores (same-codec sets, codec-family mixes, random formats), calls merged at random or round robin, each handle validated against its own model state; then every workload again alone: same data and byte identical files (SameBytesOK); plus several interleaved readers of one file sharing the content map (decoder state per handle)",
                      t0)


def c14(tier):
    t0 = time.time()
    exe = vlib.build()
    rng = random.Random(vlib.SEED)
    S = scen.Script()
    for fmt, ch in _fmts(exe, tier, (1, 2) if tier == "quick" else (1, 2, 3)):
        gen_env.c14_scenario(S, fmt, ch, RATE, rng)
        if scen.major(fmt) in (1, 2, 3, 0x13) and scen.is_granular(fmt) and ch == 1:
            gen_env.c14_scenario(S, fmt, ch, RATE, rng, N=3)          # embedded files shorter than a WAV header
        if scen.major(fmt) in (1, 2, 0x13, 0x18, 0x22) and scen.is_granular(fmt):
            gen_env.c14_scenario(S, fmt, ch, RATE, rng, rich=1)     # application chunks and strings in front of the audio
            if ch == 1 and scen.sub(fmt) == 2 and scen.major(fmt) in (1, 2):
                for big in (16384, 49152):     # large payloads (the writer cannot carry more than its header buffer holds, see KF-chunk-header-100k)
                    gen_env.c14_scenario(S, fmt, ch, RATE, rng, rich=big)
    # valid files this library did not write, through every route (AU with annotations up to and beyond the header cache limit,
    # hand-built AIFF / WAV with the chunk types the library never writes)
    for nann in (4, 40, 1000, 51176, 51177, 60000) if tier == "quick" else (0, 1, 4, 40, 1000, 8192, 51175, 51176, 51177, 51200, 60000, 90000, 110000):
        for ch in (1, 2):
            gen_env.c14_foreign(S, gen_seeds.au_annotated(nann, ch), ch, rng)
    # an unknown chunk beyond the header cache in front of the audio: skipped with a seek on most routes, read and discarded in pieces on a pipe
    for big in (65536, 65537, 98304, 131072, 81920 + 3):
        for data in gen_seeds.big_chunk_files(big):
            gen_env.c14_foreign(S, data, 1, rng, routes=("vio", "fd", "path", "pipe"), reads=(7, 64))
    for fmt, ch, data, do in gen_seeds.crafted()[:6]:
        gen_env.c14_foreign(S, data, ch, rng, routes=("vio", "fd", "path", "pipe") if scen.major(fmt) != 0x13 else ("vio", "fd", "path"))
    mcs = [gen_core.mc_rw("R", 2, tag=tier[0])]
    return core_check("C14", tier, mcs, S.lines, "DESIGN.md section 6 C14",
                      "every writable format x channels: written through {vio, fd close_desc=1, fd close_desc=0, path} (byte identity by SameBytesOK, descriptor closed iff close_desc by CloseOK) and read back through {vio, fd, fdk, path, embedded at offset 44 and 4096 with leading/trailing junk, pipe for WAV/AIFF/AU granular}: same info and samples (shared content), garbage fails the same way on every route",
                      t0)


def c16(tier):
    t0 = time.time()
    exe = vlib.build()
    rng = random.Random(vlib.SEED)
    S = scen.Script()
    fmts = [(f, c) for f, c in _fmts(exe, tier, (1,)) if scen.major(f) != scen.SD2]
    if tier == "quick":
        fmts = fmts[vlib.SEED % 2::2]
    cuts = list(range(0, 64, 3)) + list(range(64, 400, 29)) if tier == "quick" else list(range(0, 700))
    gen_env.c16_scenarios(S, exe, fmts, RATE, rng, cuts)
    # every earlier kind of scenario also ends with a ledger event: add a sample of them
    for fmt, ch in fmts[:20]:
        gen_core.invalid_calls(S, fmt, ch, RATE, "rw", rng)
        gen_core.rdwr_random(S, fmt, ch, RATE, rng, steps=30, pre=10)
    # handles on which calls have failed: the codecs that keep a temporary file (ALAC) and block buffers, written under persistent
    # transfer faults from every fault point on; only the ledger clause matters here
    frep = [x for x in [(0x180070, 1), (0x180072, 2), (0x10012, 1), (0x110002, 1), (0x50003, 1)] if x in set(_fmts(exe, tier, (1, 2)))]
    Kc = gen_env.c15_calibrate(exe, frep, RATE)
    for (fmt, ch, name), k in Kc.items():
        if name == "w":
            gen_env.c15_scenarios(S, fmt, ch, RATE, name, k, step=1, kinds=["zero", "short"], stickies=(1,))
    # Sound Designer II keeps its parameters in a resource fork beside the data file (path route only): every byte of the fork mutated
    # in place, the open that follows fails (or succeeds) at every depth of the fork parser and must leave nothing behind
    for fmt, ch in [(f, c) for f, c in _fmts(exe, tier, (1, 2)) if scen.major(f) == scen.SD2][::(2 if tier == "quick" else 1)]:
        for k0 in range(0, 2 * 620, 200):
            S.scn(fmt="0x%x" % fmt, ch=ch, kind="c16sd2", relax=1, k0=k0)
            S.add("file 1 new", "open 0 path w 1 %d %d %d" % (fmt, ch, RATE), "setstr 0 1 5469746c65", "write 0 s f 64 gen noise 5 0", "close 0")
            for k in range(k0, k0 + 200):
                S.add("rsrc 1 %d" % k, "open 1 path r 1 0 0 0", "read 1 s f 5", "close 1", "rsrc 1 -1")
            if k0 == 0:          # the fork cut short at every length up to 80 bytes and at a few longer ones
                for n in list(range(0, 80)) + [100, 200, 300, 400, 440]:
                    S.add("rsrc 1 %d" % (-2 - n), "open 1 path r 1 0 0 0", "read 1 s f 5", "close 1", "rsrc 1 -1")
    # files rich in metadata (strings, chunks, cue points, bext, cart, channel map) rejected at many parse depths: mutated seeds
    od = os.path.join(vlib.ROOT, "out", "C16", tier)
    os.makedirs(od, exist_ok=True)
    seeds = gen_c03.seed_files(exe, fmts, RATE, od)
    gen_c03.scenarios(S, seeds, rng, 40 if tier == "quick" else 600, routes=("vio", "fd", "path"), ncalls=4, systematic=1 if tier == "quick" else 2)
    if tier == "quick":      # chunked containers: hostile values (0, 0xFFFF ...) in every header field as well
        gen_c03.scenarios(S, [x for x in seeds if scen.major(x[0]) in (1, 2, 0x18) and scen.sub(x[0]) in (2, 6)], rng, 0, routes=("vio",), ncalls=3, systematic=2)
    gen_c03.scenarios(S, gen_seeds.crafted(), rng, 40 if tier == "quick" else 600, routes=("vio", "fd", "path"), ncalls=4, systematic=2)
    mcs = [gen_core.mc_rw("R", 2, tag=tier[0])]
    return core_check("C16", tier, mcs, S.lines, "DESIGN.md section 6 C16",
                      "metadata-rich files mutated at header fields (failing at many parse depths after allocations); heap (ASan allocator statistics minus the driver's own blocks), descriptor table and private TMPDIR compared before the first and after the last call of every scenario (EndOK), and around every failing open (OpenFailedOK): valid files truncated at every cut point (failures at each parse depth) on vio/fd/path routes, handles closed without I/O, handles with failed calls",
                      t0)


def c15(tier):
    t0 = time.time()
    exe = vlib.build()
    S = scen.Script()
    # one format per container and per codec family
    rep = [(0x10002, 2), (0x10006, 1), (0x10012, 1), (0x10013, 1), (0x10020, 1), (0x10022, 1), (0x10030, 1), (0x10010, 1), (0x20002, 2), (0x20012, 1), (0x20041, 1), (0x30002, 1), (0x30031, 1),
           (0x40002, 1), (0x40021, 1), (0x50003, 2), (0x50002, 1), (0x60002, 1), (0x70002, 1), (0x80002, 1), (0xa0002, 1), (0xb0002, 1), (0xc0002, 1), (0xd0002, 1), (0xe0002, 1),
           (0xf0051, 1), (0x100002, 1), (0x110002, 1), (0x120002, 1), (0x130002, 2), (0x180002, 1), (0x180070, 1), (0x190011, 1), (0x210002, 1), (0x220002, 1),
           (0x40020, 1), (0x20020, 1), (0x40022, 1), (0xb0020, 1)]          # the codecs whose block readers differ by container (GSM, NMS)
    ok = set(formats.writable(exe, chans=(1, 2), rate=RATE))
    rep = [x for x in rep if x in ok]
    rest = []
    if tier == "quick":
        rest = [x for i, x in enumerate(rep) if i % 3 != vlib.SEED % 3]
        rep = rep[vlib.SEED % 3::3]
    K = gen_env.c15_calibrate(exe, rep, RATE)
    total_k = 0
    for (fmt, ch, name), k in K.items():
        total_k += k
        gen_env.c15_scenarios(S, fmt, ch, RATE, name, k, step=1)
    # on every change, the remaining containers get the part that their header parsers can get wrong: the read workload under
    # persistent zero-length reads and length answers that are too big, at every fault point
    if rest:
        K2 = gen_env.c15_calibrate(exe, rest, RATE)
        for (fmt, ch, name), k in K2.items():
            if name == "r":
                total_k += k
                gen_env.c15_scenarios(S, fmt, ch, RATE, name, k, step=1, kinds=["zero", "lenbig"], stickies=(1,))
                gen_env.c15_scenarios(S, fmt, ch, RATE, name, k, step=1, kinds=["short"], stickies=(0,))       # one partial transfer (a block decoder's buffer is filled only partly)
    # real OS errors on the descriptor route: the descriptor is replaced behind the library's back by one that cannot be written
    for fmt, ch in rep + rest:
        if scen.major(fmt) == scen.SD2:
            continue
        T = gen_core.type_for(fmt)
        for Tw in (T, "f"):
            S.scn(fmt="0x%x" % fmt, ch=ch, T=Tw, kind="c15os")
            S.add("file 1 new", "open 0 fd w 1 %d %d %d" % (fmt, ch, RATE), "write 0 %s f 64 gen noise 3 0" % Tw, "fdclose 0",
                  "write 0 %s f 64 gen noise 4 0" % Tw, "write 0 %s i %d gen noise 5 0" % (Tw, 2 * ch), "write 0 r i 8 gen noise 6 0", "cmd 0 UPDATE_HEADER_NOW 0",
                  "write 0 %s f 3000 gen zeros 1 0" % Tw, "seek 0 0 1", "close 0")
    mcs = [gen_core.mc_rw("RW", 2, tag=tier[0], maxwrites=1)]
    return core_check("C15", tier, mcs, S.lines, "DESIGN.md section 6 C15",
                      "representative formats (one per container and codec family) x workloads {write-close, open-read-seek-close, rdwr}: a fault-free run counts K callbacks, then EVERY fault point 1..K x {zero-length transfer, short transfer, failed seek, length too big, length too small} x {single shot, persistent} is executed (complete enumeration; sum of K = %d); TraceCore with widened outcome sets: return values in range, position advances by the returned count, every call returns (watchdog), ledger empty after close" % total_k,
                      t0, timeout=5, extra_cov={"fault_points": total_k, "exhaustive": True, "level_hint": "fault enumeration is complete for the listed workloads"})


def c10(tier):
    t0 = time.time()
    exe = vlib.build()
    en = formats.enumerate_formats(exe)
    majors = [m for m, _ in en["majors"]]
    subs = [s_ for s_, _ in en["subtypes"]]
    endians = [0x00000000, 0x10000000, 0x20000000, 0x30000000]
    chans = [0, 1, 2, 3, 8, 9, 256, 257, 1024, 1025]
    rates = [-1, 0, 1, 8000, 44100, 2147483647]
    if tier == "quick":
        # on every change: a sub-grid that still reaches every rejection rule (bounds of channels and rate, every format word)
        chans = [0, 1, 2, 3, 9, 256, 257, 1024, 1025]
        rates = [0, 1, 44100, 2147483647]
    enum_lines = []
    for kind, cnt in (("major", len(en["majors"])), ("subtype", len(en["subtypes"])), ("simple", len(en["simple"]))):
        for i in range(-2, cnt + 3):
            enum_lines.append("fmtenum %s %d" % (kind, i))
    for w in majors + subs + [0, 0x10002, 0x7fff0000, 0x12345678]:
        enum_lines.append("fmtenum info %d" % w)
    od = os.path.join(vlib.ROOT, "out", "C10", tier)
    import shutil
    shutil.rmtree(od, ignore_errors=True)
    os.makedirs(od)
    nsh = min(vlib.NPROC, len(majors))
    jobs, ntuples = [], 0
    for k in range(nsh):
        mine = majors[k::nsh]
        lines = ["scn %d kind=c10" % (k + 1)] + enum_lines
        nsc = 0
        for m in mine:
            for sb in subs:
                # one scenario per (major, subtype): a call that does not return costs that scenario only (and is reported)
                nsc += 1
                lines.append("scn %d kind=c10 fmt=%d" % (1000 * (k + 1) + nsc, m | sb))
                for en_ in endians:
                    for ch in chans:
                        for r in rates:
                            lines.append("fmtcheck %d %d %d" % (m | sb | en_, ch, r))
                            ntuples += 1
        lines.append("majors " + " ".join(str(m) for m in mine))
        sp = os.path.join(od, "grid_%02d.script" % k)
        open(sp, "w").write("\n".join(lines) + "\n")
        jobs.append((sp, sp.replace(".script", ".ndjson")))

    def one(job):
        sp, ep = job
        vlib.run_driver(exe, sp, ep, timeout=30)
        v = vlib.validate_trace(ep, "TraceFormat.tla", "TraceFormat.cfg", heap="8g")
        for b in v["bad"]:
            b["script"], b["trace"] = sp, ep
        return v
    vs = vlib.parallel(jobs, one)
    bad = [b for v in vs for b in v["bad"]]
    # confirm rejected tuples alone in a fresh process (all that match no known finding, a sample of those that do)
    rd = os.path.join(od, "replay")
    os.makedirs(rd, exist_ok=True)
    known = vlib.load_known()
    todo, seen, nknown = [], set(), 0
    for b in bad:
        key = (b["op"], b["fmt"], b["ch"], b["rate"])
        if key in seen:
            continue
        seen.add(key)
        sig = {"fmt": b["fmt"], "ch": b["ch"], "rate": b["rate"], "why": b["why"], "op": b["op"], "major": (b["fmt"] >> 16) & 0xFFF, "sub": b["fmt"] & 0xFFFF}
        if vlib.match_known("C10", sig, known):
            nknown += 1
            if nknown > 16:
                continue
        todo.append(b)

    def conf(b):
        rp = os.path.join(rd, "t%d_%d_%d.script" % (b["fmt"], b["ch"], b["rate"]))
        if b["op"] in ("crash", "timeout"):
            rp = os.path.join(rd, "crash_s%d.script" % b["s"])
            sc = vlib.scenario_text(open(b["script"]).read().splitlines(), b["s"])
            open(rp, "w").write("\n".join(sc) + "\n")
            ep = rp.replace(".script", ".ndjson")
            vlib.run_driver(exe, rp, ep, timeout=30)
            v = vlib.validate_trace(ep, "TraceFormat.tla", "TraceFormat.cfg")
            hit = [x for x in v["bad"] if x["op"] in ("crash", "timeout")]
            if hit:
                cfgd = json.loads(open(ep).readline()).get("cfg", {})
                # the tuple that did not return: the last fmtcheck line before the crash marker is not in the trace; report the scenario's format
                cfgd["kind"] = "c10"
                return {"op": hit[0]["op"], "why": hit[0]["why"], "why2": hit[0]["why"], "replay": os.path.relpath(rp, vlib.ROOT), "cfg": cfgd}
            return None
        if b["op"] == "fmtcheck":
            open(rp, "w").write("scn 1 kind=c10 fmt=%d ch=%d rate=%d\nfmtcheck %d %d %d\n" % (b["fmt"], b["ch"], b["rate"], b["fmt"], b["ch"], b["rate"]))
        else:
            open(rp, "w").write("scn 1 kind=c10enum\n" + "\n".join(enum_lines) + "\n")
        ep = rp.replace(".script", ".ndjson")
        vlib.run_driver(exe, rp, ep, timeout=30)
        v = vlib.validate_trace(ep, "TraceFormat.tla", "TraceFormat.cfg")
        if v["bad"]:
            return {"op": b["op"], "why": b["why"], "why2": b["why"], "replay": os.path.relpath(rp, vlib.ROOT),
                    "cfg": {"fmt": b["fmt"], "ch": b["ch"], "rate": b["rate"], "kind": "c10"}}
        return None
    confirmed = [r for r in vlib.parallel(todo[:600], conf) if r]
    opened = sum(v.get("opened", 0) for v in vs)
    cov = {"states": sum(v["tlc_states"] for v in vs), "transitions": sum(v["lines"] for v in vs),
           "traces_validated_against_impl": len(jobs), "evaluations": ntuples, "distinct_nontrivial": opened,
           "rule": "complete grid majors(%d) x subtypes(%d) x endian{FILE,LITTLE,BIG,CPU} x channels%s x samplerate%s = %d tuples, each: sf_format_check, sf_open(SFM_WRITE), 8 frames through each of the four sample types, close, re-open; plus every index (and out-of-range indices) of the three enumeration commands and SFC_GET_FORMAT_INFO; distinct_nontrivial = tuples the library accepted and wrote (the others exercise the rejection clause)" % (len(majors), len(subs), chans, rates, ntuples),
           "samples": [open(jobs[0][0]).read().splitlines()[len(enum_lines) + 1:len(enum_lines) + 6], enum_lines[:5]],
           "exhaustive": tier == "thorough", "rejected_first_pass": len(bad), "rejected_confirmed": len(confirmed)}
    if ntuples == 0 or opened == 0:
        raise Infra("vacuous C10 run")
    return vlib.finish("C10", tier, "model_checking", cov, t0, confirmed,
                       assumptions=["the grid values are those of the property's quantifier", "format lists come from the library's own enumeration commands"])


def c13(tier):
    t0 = time.time()
    exe = vlib.build()
    rng = random.Random(vlib.SEED)
    S = scen.Script()
    conts = [(0x10002, 1), (0x10006, 2), (0x220002, 1), (0x20002, 2), (0x20006, 1), (0x180002, 1), (0x180006, 2), (0x130002, 1)]
    counts = [0, 1, 2, 19, 20, 21, 30, 31, 32, 33, 45] if tier == "quick" else list(range(0, 50)) + [60, 100, 200]
    ids4 = [b"ABCD", b"ABCD", b"wxyz", b"Q1_2"]
    pays = [0, 1, 2, 3, 4, 5, 7, 64, 1001] if tier == "quick" else [0, 1, 2, 3, 4, 5, 6, 7, 8, 63, 64, 65, 1001, 4096, 4097, 65536]
    for fmt, ch in conts:
        for n in counts:
            gen_env.c13_scenario(S, fmt, ch, RATE, rng, n, ids4, pays[rng.randint(0, 3):] + pays[:3], late=(n % 3 == 1))
        # short identifiers (1-3 characters), the same id everywhere, one big payload
        gen_env.c13_scenario(S, fmt, ch, RATE, rng, 3, [b"XY", b"a", b"abc"], [4, 5], cfg={"short": 1})
        gen_env.c13_scenario(S, fmt, ch, RATE, rng, 25, [b"SAME"], [2, 9])
        gen_env.c13_scenario(S, fmt, ch, RATE, rng, 2, [b"BIG1", b"BIG2"], [20000 if tier == "quick" else 65536, 3], shortbuf=False)
    # containers that cannot carry chunks: refused, audio untouched
    for fmt, ch in [(0x30002, 1), (0x40002, 1), (0xb0002, 1), (0x70002, 1)]:
        gen_env.c13_scenario(S, fmt, ch, RATE, rng, 2, ids4, pays)
    mcs = [gen_chunks_mc(tier)]
    return core_check("C13", tier, mcs, S.lines, "DESIGN.md section 6 C13",
                      "WAV, WAVEX, RF64, AIFF, CAF (int and float encodings) x chunk counts %s (crossing the capacity steps 20, 31, 47 ...) x ids (4 characters incl. duplicates, all identical, 1-3 characters) x payload lengths %s x a chunk set after the audio; re-open: full iteration, iteration by id (incl. an absent id), get_data with short buffers (guard bands), next after last; audio and a title string read back; hook reports used/capacity after every set (SetChunkOK)" % (counts if len(counts) < 20 else "0..49,60,100,200", pays),
                      t0)


def gen_chunks_mc(tier):
    """bounded model of the chunk table growth (spec/MC_chunks.tla)"""
    cfgname = gen_core.write_cfg("MC_chunks_%s.cfg" % tier[0], dict(MaxChunks=40 if tier == "quick" else 300, InitCap=20), ["TypeOK", "ChunkCap", "VisitOnce"], constraint=None, extra="CHECK_DEADLOCK FALSE\n")
    return vlib.model_check("MC_chunks.tla", cfgname, workers=4, timeout=600)


def c03(tier):
    t0 = time.time()
    exe = vlib.build()
    rng = random.Random(vlib.SEED)
    od = os.path.join(vlib.ROOT, "out", "C03", tier)
    os.makedirs(od, exist_ok=True)
    fmts = [(f, c) for f, c in formats.writable(exe, chans=(1, 2), rate=RATE) if scen.major(f) != scen.SD2]
    if tier == "quick":
        fmts = [x for x in fmts if x[1] == 1] + [x for x in fmts if x[1] == 2][::5]
    seeds = gen_c03.seed_files(exe, fmts, RATE, od)
    S = scen.Script()
    per = 110 if tier == "quick" else 1200
    gen_c03.scenarios(S, seeds, rng, per, routes=("vio", "vio", "fd", "pipe") if tier == "thorough" else ("vio", "vio", "vio", "fd", "pipe"), ncalls=10 if tier == "quick" else 16, systematic=(2 if tier == "thorough" else 0))
    if tier == "quick":
        # block codecs keep their block geometry in the header (block size, samples per block, coefficient tables): the near-value pass
        # (+1, -1, doubled, halved on every 2 byte field) for those seeds on every change
        gen_c03.scenarios(S, [x for x in seeds if not scen.is_granular(x[0]) and x[1] == 1], rng, 0, routes=("vio",), ncalls=4, systematic=1)
    # hand-built files with the chunk types the library reads but never writes (INST + MARK + COMT + APPL; smpl + cue + adtl + inst + acid):
    # random mutants plus the systematic near-value and hostile-value passes over every header field
    crafted = gen_seeds.crafted()
    gen_c03.scenarios(S, crafted, rng, per, routes=("vio", "vio", "fd"), ncalls=8 if tier == "quick" else 16, systematic=2)
    mcs = [gen_core.mc_rw("R", 2, tag=tier[0])]
    return core_check("C03", tier, mcs, S.lines, "DESIGN.md section 6 C03",
                      "valid files of every writable format (with strings and a custom chunk) mutated: hostile values substituted into 1/2/4/8 byte header fields in both byte orders, truncation at header offsets, bit flips, duplicated/deleted/moved header slices, random bytes behind the magic, pure garbage; %d seeds x %d mutants, routes vio/fd/pipe; after a successful open a random sequence of reads (4 types, items/frames/raw), seeks (every whence), string/info/peak/CALC queries, chunk iteration, close; TraceCore hostile class: NULL+error+message or sane SF_INFO, counts/positions/guard bands, every call returns (watchdog), ASan, ledger" % (len(seeds), per),
                      t0, timeout=10, extra_cov={"seeds": len(seeds), "mutants_per_seed": per, "level_hint": "sampling of the input space, see DESIGN.md section 8"})


def c18(tier):
    t0 = time.time()
    exe = vlib.build()
    rng = random.Random(vlib.SEED)
    S = scen.Script()
    peakf = [0x10006, 0x10007, 0x130006, 0x20006, 0x20007, 0x180006, 0x180007, 0x220006]
    ints = [0x10002, 0x10003, 0x10004, 0x10005, 0x20001, 0x20003, 0x180004, 0x30002, 0xb0003, 0x40004, 0x70002, 0xe0004,
            0x180070, 0x180071, 0x180072, 0x180073, 0x50004, 0x20040, 0x20041, 0x20042, 0x110001, 0x110002, 0x110003]      # + ALAC, PAF-24, DWVW, SDS
    other = [0x30006, 0x40007, 0xb0006, 0xc0006, 0xd0007, 0xa0006]          # float encodings without a PEAK chunk: CALC only
    layouts = ["first", "last", "boundary", "ties", "zero"]
    chans = (1, 2) if tier == "quick" else (1, 2, 5)
    ok = set(formats.writable(exe, chans=chans, rate=RATE))
    okall = set(formats.writable(exe, chans=chans, rate=RATE, endians=(0, 0x10000000, 0x20000000)))
    for fmt in peakf + ints + other:
        for ch in chans:
            if (fmt, ch) not in ok:
                continue
            for lay in layouts:
                for N in ([37] if tier == "quick" else [5, 37, 300]):
                    gen_env.c18_scenario(S, fmt, ch, RATE, rng, N, lay, 4 if tier == "quick" else 7)
            if scen.is_granular(fmt):
                gen_env.c18_scenario(S, fmt, ch, RATE, rng, 37, "ties", 3, rdwr=True)
            if fmt in peakf:
                # float / double PEAK files written through the integer entry points (both byte orders where the container has them)
                for en_ in (0, 0x20000000 if scen.major(fmt) in (1, 0x18) else 0x10000000 if scen.major(fmt) == 2 else 0):
                    if (fmt | en_, ch) in okall:
                        for wT in "si":
                            gen_env.c18_scenario(S, fmt | en_, ch, RATE, rng, 37, "last" if wT == "s" else "boundary", 4, wT=wT)
    # every other seekable encoding: CALC must leave position and normalisation alone (values not predicted)
    for fmt, ch in formats.writable(exe, chans=(1,), rate=RATE):
        if fmt in peakf + ints + other or scen.major(fmt) == scen.SD2:
            continue
        T = gen_core.type_for(fmt)
        S.scn(fmt="0x%x" % fmt, ch=ch, T=T, kind="c18pos")
        S.add("file 1 new", "open 0 vio w 1 %d %d %d" % (fmt, ch, RATE), "write 0 %s f 200 gen noise 3 0" % T, "close 0",
              "open 1 vio r 1 %d %d %d" % (fmt if scen.major(fmt) == scen.RAW else 0, ch, RATE), "read 1 %s f 7" % T,
              "calc 1 CALC_SIGNAL_MAX", "calc 1 CALC_NORM_MAX_ALL_CHANNELS", "seek 1 0 1", "read 1 %s f 3" % T, "close 1")
    mcs = [gen_core.mc_rw("R", 2, tag=tier[0])]
    return core_check("C18", tier, mcs, S.lines, "DESIGN.md section 6 C18",
                      "float/double files in PEAK containers (WAV, WAVEX, AIFF, CAF, RF64) x channels x layouts of the maximum {first frame, last frame, both sides of a write-call boundary, ties, all zero} x write partitions, samples on the k/1024 grid logged as exact dyadics: stored PEAK values and positions (hook), SFC_GET_SIGNAL_MAX / GET_MAX_ALL_CHANNELS after re-open; SFC_CALC_* (plain, per channel, normalised) on float and integer PCM files at read positions 0, N/2, N and on RDWR handles: value = true maximum computed by TLC (CalcValsOK), position and normalisation setting unchanged; position clause on every other seekable encoding",
                      t0)


def c12(tier):
    t0 = time.time()
    exe = vlib.build()
    rng = random.Random(vlib.SEED)
    S = scen.Script()
    conts = [(0x10002, 1), (0x10006, 2), (0x130002, 2), (0x220002, 2), (0x20002, 1), (0x20006, 2), (0x180002, 2), (0x180006, 1)]
    other = [(0x30002, 1), (0xb0002, 2), (0x40002, 1), (0x70002, 1), (0xc0002, 1)]
    lens = [1, 2, 3, 8, 31, 32, 64, 200] if tier == "quick" else [1, 2, 3, 4, 5, 7, 8, 9, 15, 16, 17, 31, 32, 33, 63, 64, 65, 127, 128, 200, 255, 256, 1000]
    for fmt, ch in conts + other:
        # every string type, one length each per scenario, several lengths overall
        for L in lens:
            gen_env.c12_scenario(S, fmt, ch, RATE, rng, [("str", t, L + (t % 3)) for t in gen_env.STR_TYPES], order=rng.choice([None, "rev", "shuffle"]))
        # structured items one at a time and all together, boundary lengths of text fields and history / tag text
        for L in ([1, 8, 10, 32, 64, 256] if tier == "quick" else [0, 1, 2, 7, 8, 9, 10, 11, 31, 32, 33, 63, 64, 65, 255, 256, 300]):
            gen_env.c12_scenario(S, fmt, ch, RATE, rng, [("bext", L, rng.choice([13, 40, 255, 256, 1000, 9000]))])
            gen_env.c12_scenario(S, fmt, ch, RATE, rng, [("cart", L, rng.choice([2, 40, 255, 1000, 9000]))])
        for n in ([0, 1, 2, 16, 99, 100] if tier == "quick" else list(range(0, 101, 7)) + [99, 100]):
            gen_env.c12_scenario(S, fmt, ch, RATE, rng, [("cues", rng.choice([0, 1, 20, 255]), n)])
        for n in ([0, 1, 2, 16] if tier == "quick" else range(0, 17)):
            gen_env.c12_scenario(S, fmt, ch, RATE, rng, [("inst", 0, n)])
        gen_env.c12_scenario(S, fmt, ch, RATE, rng, [("bext", 10, 15000)], cfg={"big": 1})
        gen_env.c12_scenario(S, fmt, ch, RATE, rng, [("cart", 10, 15000)], cfg={"big": 1})
        gen_env.c12_scenario(S, fmt, ch, RATE, rng, [("chmap", 0, 1)])
        gen_env.c12_scenario(S, fmt, ch, RATE, rng, [("chmap", 1, 1)])
        gen_env.c12_scenario(S, fmt, ch, RATE, rng, [("chmap", 99, 1)])
        for lk in (2, 3, 4, 5):        # a standard layout whose last entry cannot be stored: refused, or stored and returned unchanged
            gen_env.c12_scenario(S, fmt, ch, RATE, rng, [("chmap", lk, 1)])
        allitems = [("str", 1, 9), ("str", 3, 12), ("str", 5, 40), ("bext", 10, 300), ("cart", 12, 77), ("cues", 6, 5), ("chmap", 1, 1)]
        for order in (None, "rev", "shuffle"):
            gen_env.c12_scenario(S, fmt, ch, RATE, rng, allitems, order=order)
        gen_env.c12_scenario(S, fmt, ch, RATE, rng, allitems + [("inst", 0, 2)], cfg={"cuesinst": 1})
        # too late: after audio has been written -- failure or ignored, audio and earlier metadata intact
        gen_env.c12_scenario(S, fmt, ch, RATE, rng, allitems, late=True)
    mcs = [gen_core.mc_rw("W", 0, tag=tier[0], maxwrites=1)]
    return core_check("C12", tier, mcs, S.lines, "DESIGN.md section 6 C12",
                      "WAV, WAVEX, RF64, AIFF, CAF (int and float) plus containers without metadata: every string type x lengths %s; bext and cart with every text field at boundary lengths and coding history / tag text up to 16000 bytes with LF, CR LF line ends; 0..100 cues; 0..16 loops; channel maps (valid and invalid); all items together in three orders; items set after the audio; after re-open every get call is compared with the normal form of what was set (GetMetaOK: support matrix, software suffix, CR/LF, appended history line), audio compared as in C01" % lens,
                      t0)


def _conv_mc():
    cfgname = os.path.join(vlib.SPEC, "MC_conv.cfg")
    return vlib.model_check("MC_conv.tla", "MC_conv.cfg", workers=1, timeout=900)


def c20(tier):
    t0 = time.time()
    rng = random.Random(vlib.SEED)
    S = scen.Script()
    G = gen_conv
    # G.711: all 256 codes decoded through the four caller types; all 65536 shorts (and their int / float / double images) encoded
    allcodes = bytes(range(256))
    for sub in (0x10, 0x11):
        for T in "sifd":
            G.dec(S, sub, 0, T, allcodes)
            G.dec(S, sub, 0, T, allcodes, norm=0)
        for lo in range(-32768, 32768, 8192):
            sh = list(range(lo, lo + 8192))
            G.enc(S, sub, 0, "s", G.val_tokens("s", sh))
            G.enc(S, sub, 0, "i", G.val_tokens("i", [v * 65536 + ((v * 7919) % 65536 if tier == "thorough" else 0) for v in sh]))
            G.enc(S, sub, 0, "d", G.val_tokens("d", [v / 32768.0 for v in sh]))
            G.enc(S, sub, 0, "f", G.val_tokens("f", [v / 32768.0 for v in sh]))
    # portable IEEE serialisers (SFC_TEST_IEEE_FLOAT_REPLACE): stratified over sign x every exponent x mantissa classes
    def fpats(n):
        out = []
        for sgn in (0, 1):
            for ex in range(1, 255):          # finite normal values
                for man in [0, 1, 0x7FFFFF, 0x400000] + [rng.randrange(1 << 23) for _ in range(n)]:
                    out.append((sgn << 31) | (ex << 23) | man)
        return out
    pats = fpats(2 if tier == "quick" else 40)
    sg = lambda u: u - (1 << 32) if u >= (1 << 31) else u
    for big in (0, 1):
        vals = [str(sg(p)) for p in pats]
        for i in range(0, len(vals), 8192):
            G.enc(S, 6, big, "f", vals[i:i + 8192], ieee=1, fmode=0)
            data = b"".join(struct.pack(">I" if big else "<I", p) for p in pats[i:i + 8192])
            G.dec(S, 6, big, "f", data, ieee=1, fmode=0)
    def dpats(n):
        out = []
        for sgn in (0, 1):
            for ex in list(range(1, 2047, 1 if tier == "thorough" else 16)) + [1, 2, 1022, 1023, 1024, 2046]:
                for man in [0, 1, (1 << 52) - 1] + [rng.randrange(1 << 52) for _ in range(n)]:
                    out.append((sgn << 63) | (ex << 52) | man)
        return out
    dp = dpats(1 if tier == "quick" else 6)
    for big in (0, 1):
        toks = ["%d:%d" % (sg(p >> 32), p & 0xFFFFFFFF) for p in dp]
        for i in range(0, len(toks), 4096):
            G.enc(S, 7, big, "d", toks[i:i + 4096], ieee=1, fmode=0)
            data = b"".join(struct.pack(">Q" if big else "<Q", p) for p in dp[i:i + 4096])
            G.dec(S, 7, big, "d", data, ieee=1, fmode=0)
    # byte order helpers: the same integer samples in little and big endian files (BytesOf with big = TRUE / FALSE)
    for sub in (2, 3, 4):
        vals = [rng.randrange(-2 ** 31, 2 ** 31) for _ in range(2000)] + [0, -1, 1, 2 ** 31 - 1, -2 ** 31]
        for big in (0, 1):
            G.enc(S, sub, big, "i", G.val_tokens("i", vals))
    # ADPCM reference decoders: IMA in the WAV / W64 and AIFF block layouts, Microsoft ADPCM; every legal block size, 1-2 channels
    A = scen.Script()
    rates = [8000, 11025, 22050, 44100] if tier == "quick" else [8000, 11025, 12000, 16000, 22050, 24000, 32000, 44100, 48000]
    for ch in (1, 2):
        for rate in rates:
            for layout, fmt in (("wavima", 0x10012), ("wavima", 0xb0012), ("ms", 0x10013), ("ms", 0xb0013), ("aiffima", 0x20012)):
                if layout == "aiffima" and rate != rates[0]:
                    continue
                spb = scen.block_hint(fmt, ch, rate)
                rc = rate * ch
                ba = 34 * ch if layout == "aiffima" else (256 if rc < 12000 else 512 if rc < 23000 else 1024 if rc < 44000 else 2048)
                for kind in ("rand", "ext", "hdr"):
                    for rep in range(1 if tier == "quick" else 6):
                        gen_conv.adpcm(A, layout, fmt, ch, rate, spb, 3 if layout != "aiffima" else 12, rng.randint(1, 10 ** 6), kind, ba)
    mcs = [_conv_mc()]
    return core_check("C20", tier, mcs, S.lines, "DESIGN.md section 6 C20",
                      "G.711: all 256 codes of both laws decoded through short/int/float/double (normalisation on and off) and all 65536 short inputs, their int images and their float/double images encoded, compared with the TLA+ definitions SfG711 (from the Recommendation); portable IEEE-754 float/double serialisers forced with SFC_TEST_IEEE_FLOAT_REPLACE: %d float and %d double bit patterns (both signs, every float exponent, mantissa classes) written and read back, little and big endian, bytes vs bit pattern; byte order of 16/24/32 bit integers (BytesOf); ADPCM blocks (see coverage.adpcm) vs the reference decoders of SfAdpcm" % (len(pats), len(dp)),
                      t0, module="TraceConv.tla", cfg="TraceConv.cfg", extra_parts=[(A.lines, "TraceAdpcm.tla", "TraceAdpcm.cfg", "adpcm")],
                      extra_cov={"exhaustive_g711": True, "adpcm": "IMA (WAV, W64, AIFF layouts) and MS ADPCM blocks with random, extreme and hostile-header bytes decoded by the library and by spec/SfAdpcm.tla; block sizes 256..2048 (every size wavlike_srate2blocksize produces), 1-2 channels"})


def c02(tier):
    t0 = time.time()
    rng = random.Random(vlib.SEED)
    S = scen.Script()
    G = gen_conv
    shorts = list(range(-32768, 32768))
    ints = [v * 65536 for v in range(-32768, 32768, 5)] + [rng.randrange(-2 ** 31, 2 ** 31) for _ in range(4000)] + [2 ** 31 - 1, -2 ** 31, 255, 256, -255, -256, 65535, 65536, -65536, -65537]
    pcm = [(1, 1), (5, 1), (2, 2), (3, 3), (4, 4)]
    for sub, nb in pcm:
        for big in ((0, 1) if nb > 1 else (0,)):
            # integer writes: every short, many ints
            for i in range(0, len(shorts), 16384):
                G.enc(S, sub, big, "s", G.val_tokens("s", shorts[i:i + 16384]))
            G.enc(S, sub, big, "i", G.val_tokens("i", ints))
            # reads of every stored code (8 / 16 bit exhaustively, wider: boundary + random codes) through the four types
            if nb == 1:
                data = bytes(range(256))
            elif nb == 2:
                data = b"".join(struct.pack(">h" if big else "<h", v) for v in range(-32768, 32768, 1 if tier == "thorough" else 3))
            else:
                codes = [0, 1, -1, 2 ** (8 * nb - 1) - 1, -2 ** (8 * nb - 1), 255, 256, -256, 65535, 65536, 2 ** 24 + 1 if nb == 4 else 7, -(2 ** 24) - 1 if nb == 4 else -7] + [rng.randrange(-2 ** (8 * nb - 1), 2 ** (8 * nb - 1)) for _ in range(3000)]
                data = b"".join((c & (2 ** (8 * nb) - 1)).to_bytes(nb, "big" if big else "little") for c in codes)
            for T in "sifd":
                for i in range(0, len(data), 8192 * nb):
                    G.dec(S, sub, big, T, data[i:i + 8192 * nb])
                    if T in "fd":
                        G.dec(S, sub, big, T, data[i:i + 8192 * nb], norm=0)
    # float / double writes into 8 and 16 bit PCM: every point of the target grid j / 2^(w-1), normalisation on; clipping on and off
    for sub, w in ((1, 8), (5, 8), (2, 16)):
        js = list(range(-2 ** (w - 1), 2 ** (w - 1) + 1)) if w == 8 else list(range(-32768, 32769, 1 if tier == "thorough" else 3))
        for T in "fd":
            xs = [j / float(2 ** (w - 1)) for j in js if -2 ** (w - 1) < j < 2 ** (w - 1)]
            for i in range(0, len(xs), 8192):
                G.enc(S, sub, 0, T, G.val_tokens(T, xs[i:i + 8192]))
            # clipping: out of range input saturates (incl. +-1.0, +-1.5, +-2.0)
            xc = [j / float(2 ** (w - 1)) for j in js] + [1.5, -1.5, 2.0, -2.0, 1 - 2.0 ** -24, -(1 - 2.0 ** -24), 1 - 2.0 ** -17, 1 - 2.0 ** -9, -(1 - 2.0 ** -9)]
            for i in range(0, len(xc), 8192):
                G.enc(S, sub, 0, T, G.val_tokens(T, xc[i:i + 8192]), clip=1)
        # normalisation off: integers pass through unscaled (nearest integer)
        G.enc(S, sub, 0, "d", G.val_tokens("d", [float(v) for v in range(-2 ** (w - 1), 2 ** (w - 1), 1 if w == 8 else 97)] + [0.5, 1.5, 2.5, -0.5, -1.5, 100.25, -100.75]), norm=0)
    # wider targets: saturation with clipping on
    for sub, w in ((3, 24), (4, 32)):
        for T in "fd":
            near = [1 - 2.0 ** -24, -(1 - 2.0 ** -24), 1 - 2.0 ** -23, 1 - 2.0 ** -16, -(1 - 2.0 ** -23), 1 - 2.0 ** -10, 0.75, -0.75, 2.0 ** -23, 3 * 2.0 ** -24, -3 * 2.0 ** -24]
            for big in (0, 1):
                G.enc(S, sub, big, T, G.val_tokens(T, [1.0, -1.0, 1.5, -1.5, 2.0, -2.0, 0.0, 0.5, -0.5, 0.25] + near), clip=1)
    # 24 and 32 bit targets, clipping off: nearest integer to x * (2^(w-1) - 1) (ScaleWide); inputs inside the rule's preconditions
    nw = 1500 if tier == "quick" else 12000
    for sub, w in ((3, 24), (4, 32)):
        for big in (0, 1):
            xs = []
            for _ in range(nw):                    # float: w = 24 needs |m| <= 255; w = 32 takes any float
                if w == 24:
                    k = rng.randint(8, 23)
                    m = rng.randrange(1, 256, 2)
                else:
                    k = rng.randint(24, 40)
                    m = rng.randrange(1, 1 << 24, 2)
                    while m >= (1 << k):
                        m >>= 1
                        m |= 1
                xs.append(rng.choice((-1, 1)) * m / float(1 << k))
            xs += [0.0, 0.5, -0.5, 0.25, -0.75, 2.0 ** -23, -(2.0 ** -23), 255 / 256.0, -255 / 256.0]
            G.enc(S, sub, big, "f", G.val_tokens("f", xs))
            xd = []
            for _ in range(nw):                    # double: on the 2^-(w-1) grid, at most 22 significant bits for w = 32
                k = rng.randint(1, w - 1)
                m = rng.randrange(1, 1 << min(k, 22 if w == 32 else 23), 2) if k > 1 else 1
                xd.append(rng.choice((-1, 1)) * m / float(1 << k))
            g = w - 1 if w == 24 else 22           # finest step the preconditions allow around 1/2 and 1
            xd += [0.0, 0.5, -0.5, 0.5 + 2.0 ** -g, -(0.5 + 2.0 ** -g), 0.5 - 2.0 ** -g, 1 - 2.0 ** -g, -(1 - 2.0 ** -g), 2.0 ** -(w - 1), -(2.0 ** -(w - 1))]
            G.enc(S, sub, big, "d", G.val_tokens("d", xd))
    # G.711 targets: every short, ints with and without low bits, every stored code through the four types
    for sub in (0x10, 0x11):
        for i in range(0, len(shorts), 16384):
            G.enc(S, sub, 0, "s", G.val_tokens("s", shorts[i:i + 16384]))
        G.enc(S, sub, 0, "i", G.val_tokens("i", ints))
        G.enc(S, sub, 0, "i", G.val_tokens("i", [v * 65536 for v in range(-32768, 32768, 3)]))
        for T in "sifd":
            G.dec(S, sub, 0, T, bytes(range(256)))
    mcs = [_conv_mc()]
    xparts = _c02_xtype(tier)
    return core_check("C02", tier, mcs, S.lines, "DESIGN.md section 6 C02",
                      "headerless files of PCM_S8, PCM_U8, PCM_16, PCM_24, PCM_32 (little and big endian): all 65536 short inputs and ~30000 int inputs written, file bytes compared with CodeOfInt/BytesOf; every 8 and 16 bit stored code (boundary + 3000 random codes for 24/32 bit) read through short/int/float/double with normalisation on and off (exact dyadic comparison, float rounding of 32 bit codes modelled); float and double writes of every point of the 8 and 16 bit target grids (nearest integer to x*(2^(w-1)-1), float product rounded to 24 bits = D2), clipping on: saturation incl. +-1.0, +-1.5, +-2.0 for 8/16/24/32 bit; normalisation off: unscaled nearest integer",
                      t0, module="TraceConv.tla", cfg="TraceConv.cfg", extra_parts=xparts)


def _c02_xtype(tier):
    """agreement of the four caller types on every integer-coded encoding in every container (TraceCore, XTypeOK):
    the data is written (or, for lossy codecs, learnt by a first read as int), then read again as short, float and double"""
    exe = vlib.build()
    rng = random.Random(vlib.SEED + 2)
    S = scen.Script()
    for fmt, ch in _fmts(exe, tier, (1, 2) if tier == "quick" else (1, 2, 3)):
        sb = scen.sub(fmt)
        if sb in (6, 7) or scen.major(fmt) == scen.SD2:
            continue
        B = scen.block_hint(fmt, ch, RATE)
        N = B + 7 if B > 1 else 120
        lc = scen.lossless_class(fmt, "i")
        Tw, (cls, par) = ("i", lc) if lc else ("s", ("noise", 0))
        S.scn(fmt="0x%x" % fmt, ch=ch, T=Tw, kind="xtype", fmode=1)
        S.add("file 1 new", "open 0 vio w 1 %d %d %d" % (fmt, ch, RATE), "write 0 %s f %d gen %s %d %d" % (Tw, N, cls, rng.randint(1, 10 ** 6), par), "close 0",
              "open 1 vio r 1 %d %d %d" % (fmt if scen.major(fmt) == scen.RAW else 0, ch, RATE))
        for T in "isfd":
            S.add("seek 1 0 0", "read 1 %s f %d" % (T, N + 3))
        k = rng.randint(1, max(1, N - 5))
        for T in "dfsi":
            S.add("seek 1 %d 0" % k, "read 1 %s i %d" % (T, 3 * ch))
        # the two normalisation settings are independent: each off in turn, both caller types read under each setting
        for off, on in (("FLOAT", "DOUBLE"), ("DOUBLE", "FLOAT")):
            S.add("cmd 1 SET_NORM_%s 0" % off, "cmd 1 SET_NORM_%s 1" % on)
            for T in "df":
                S.add("seek 1 0 0", "read 1 %s f %d" % (T, N + 3))
        S.add("close 1")
    # floating point numbers written into integer-lossless encodings with normalisation off: integers pass through unscaled
    import struct as _st
    for fmt, ch in _fmts(exe, tier, (1, 2)):
        sb = scen.sub(fmt)
        w = scen.SUB_WIDTH.get(sb)
        if not w or scen.major(fmt) == scen.SD2 or sb in (6, 7):
            continue
        u = 32 if sb in (0x40, 0x41, 0x42, 0x70, 0x71, 0x72, 0x73) else w
        top = (1 << (w - 1)) - 1 if w <= 24 else (1 << (w - 1)) - (1 << (w - 25))
        ks = [0, 1, -1, -5, 1000 if w > 11 else 100, top, -top, top // 3, -(top // 7)]
        B = scen.block_hint(fmt, ch, RATE)
        n = max(len(ks), (B + 3 if B > 1 else 0))
        ks = (ks * (n // len(ks) + 1))[:n // ch * ch + ch]
        ks = ks[:len(ks) // ch * ch]
        vals = [float(k * (1 << (u - w))) for k in ks]
        dt = lambda x: "%d:%d" % ((lambda b: (b >> 32, b & 0xFFFFFFFF))(_st.unpack("<q", _st.pack("<d", x))[0]))
        ft = lambda x: str(_st.unpack("<i", _st.pack("<f", x))[0])
        S.scn(fmt="0x%x" % fmt, ch=ch, T="d", kind="unnormw", fmode=1)
        # (one setting off at a time: the writer has to look at the setting of its own type)
        # (the double entry point also gets values that need more than 24 significant bits)
        # (mantissas below 2^30: larger ones are logged in split form, which the rule does not take)
        wide = [float(k * (1 << (u - w))) for k in (123456789, -987654321, 536870913, -1073741823, 33554433, -16777217)] if w > 24 else []
        wide = wide[:len(wide) // ch * ch]
        S.add("file 1 new", "open 0 vio w 1 %d %d %d" % (fmt, ch, RATE), "cmd 0 SET_NORM_DOUBLE 0",
              "write 0 d i %d %s" % (len(vals) + len(wide), " ".join(dt(v) for v in vals + wide)), "cmd 0 SET_NORM_DOUBLE 1", "cmd 0 SET_NORM_FLOAT 0",
              "write 0 f i %d %s" % (len(vals), " ".join(ft(v) for v in vals)), "close 0",
              "open 1 vio r 1 %d %d %d" % (fmt if scen.major(fmt) == scen.RAW else 0, ch, RATE), "read 1 i i %d" % (2 * len(vals) + len(wide) + ch),
              "cmd 1 SET_NORM_DOUBLE 0", "seek 1 0 0", "read 1 d i %d" % (2 * len(vals) + len(wide)), "seek 1 0 0", "read 1 f i %d" % (2 * len(vals) + len(wide)), "close 1")
        # the same with clipping on and values at and beyond the extremes: saturation instead of wrapping
        big = [float(1 << (u - 1)), float(1 << u), -float(1 << u), 1.5 * (1 << (u - 1)), -1.5 * (1 << (u - 1)), 5.0 * (1 << (u - w)), -float(1 << (u - 1)), float(top * (1 << (u - w)))]
        big = (big * ((n // len(big)) + 1))[:max(len(big), n) // ch * ch]
        S.scn(fmt="0x%x" % fmt, ch=ch, T="d", kind="unnormclip", fmode=1)
        S.add("file 1 new", "open 0 vio w 1 %d %d %d" % (fmt, ch, RATE), "cmd 0 SET_CLIPPING 1", "cmd 0 SET_NORM_DOUBLE 0",
              "write 0 d i %d %s" % (len(big) + len(wide), " ".join(dt(v) for v in big + wide)), "cmd 0 SET_NORM_DOUBLE 1", "cmd 0 SET_NORM_FLOAT 0",
              "write 0 f i %d %s" % (len(big), " ".join(ft(v) for v in big)), "close 0",
              "open 1 vio r 1 %d %d %d" % (fmt if scen.major(fmt) == scen.RAW else 0, ch, RATE), "read 1 i i %d" % (2 * len(big) + len(wide) + ch), "close 1")
    # float / double files read through the integer types (scaling off): nearest integer, saturation with clipping on
    fvals = [0.0, 0.5, -0.5, 1.5, 2.5, -1.5, -2.5, 0.49999997, 0.75, 1.0, -1.0, 3.25, 100.5, 101.5, 32766.5, 32767.0, 32767.5, 32768.0, -32768.0, -32768.5, -32769.0, 65536.0, 1e6,
             16777215.0, 16777216.0, 2147483520.0, 2147483648.0, -2147483648.0, -2147483904.0, 4294967296.0, -4294967296.0, 3e9, -3e9, 1e-3, -1e-3] + [rng.uniform(-40000, 40000) for _ in range(40)] + [rng.uniform(-3e9, 3e9) for _ in range(20)]
    def ftok(x):
        return str(_st.unpack("<i", _st.pack("<f", x))[0])
    def dtok(x):
        x = _st.unpack("<f", _st.pack("<f", x))[0]          # values exact in float, so that the dyadic mantissa stays below 2^30
        b = _st.unpack("<q", _st.pack("<d", x))[0]
        return "%d:%d" % (b >> 32, b & 0xFFFFFFFF)
    ok = set(_fmts(exe, tier, (1, 2)))
    for fmt in (0x40006, 0x20040006, 0x10006, 0x20006, 0x30006, 0x180006, 0x40007, 0x10007, 0x20007) if tier == "quick" else [f for f, c in ok if scen.sub(f) in (6, 7) and c == 1]:
        for ch in (1, 2):
            if (fmt & 0x0FFFFFFF, ch) not in ok and (fmt, ch) not in ok:
                continue
            Tw = "f" if scen.sub(fmt) == 6 else "d"
            vals = fvals[:len(fvals) // ch * ch]
            for clip in (0, 1):
                S.scn(fmt="0x%x" % fmt, ch=ch, T=Tw, kind="f2int", fmode=1, clip=clip)
                S.add("file 1 new", "open 0 vio w 1 %d %d %d" % (fmt, ch, RATE), "write 0 %s i %d %s" % (Tw, len(vals), " ".join((ftok if Tw == "f" else dtok)(v) for v in vals)), "close 0",
                      "open 1 vio r 1 %d %d %d" % (fmt if scen.major(fmt) == scen.RAW else 0, ch, RATE))
                if clip:
                    S.add("cmd 1 SET_CLIPPING 1")
                for T in "is":
                    S.add("seek 1 0 0", "read 1 %s i %d" % (T, len(vals)))
                S.add("seek 1 0 0", "read 1 %s i %d" % (Tw, len(vals)), "close 1")
    # integers written into float / double files with SFC_SET_SCALE_INT_FLOAT_WRITE on: v / 2^15 and v / 2^31
    ivs = [0, 1, -1, 32767, -32768, 12345, -5, 16384, -16384, 3]
    ivi = [0, 1, -1, 2147483647, -2147483648, 2147483520, 16777217, -16777217, 1 << 30, -(1 << 30), 123456789, -987654321, 65536, 33]
    for fmt in (0x40006, 0x20040006, 0x10006, 0x20006, 0x30006, 0x180006, 0x40007, 0x10007, 0x20007, 0x180007) if tier == "quick" else [f for f, c in ok if scen.sub(f) in (6, 7) and c == 1]:
        for ch in (1, 2):
            if (fmt & 0x0FFFFFFF, ch) not in ok and (fmt, ch) not in ok:
                continue
            Tw = "f" if scen.sub(fmt) == 6 else "d"
            a, b = ivs[:len(ivs) // ch * ch], ivi[:len(ivi) // ch * ch]
            for rep in ((0, 1) if scen.major(fmt) in (4, 1) else (0,)):          # (also through the portable serialisers)
                S.scn(fmt="0x%x" % fmt, ch=ch, T=Tw, kind="i2fscale", fmode=1, rep=rep)
                S.add("file 1 new", "open 0 vio w 1 %d %d %d" % (fmt, ch, RATE), *(["cmd 0 TEST_IEEE_FLOAT_REPLACE 1"] if rep else []))
                S.add("cmd 0 SET_SCALE_INT_FLOAT_WRITE 1",
                      "write 0 s i %d %s" % (len(a), " ".join(map(str, a))), "write 0 i i %d %s" % (len(b), " ".join(map(str, b))), "close 0",
                      "open 1 vio r 1 %d %d %d" % (fmt if scen.major(fmt) == scen.RAW else 0, ch, RATE), "read 1 %s i %d" % (Tw, len(a) + len(b) + ch), "close 1")
    return [(S.lines, "TraceCore.tla", "TraceCore.cfg", "xtype")]


CMD_NAMES = ["GET_LIB_VERSION", "GET_LOG_INFO", "GET_CURRENT_SF_INFO", "GET_NORM_DOUBLE", "GET_NORM_FLOAT", "SET_NORM_DOUBLE", "SET_NORM_FLOAT",
             "SET_SCALE_FLOAT_INT_READ", "SET_SCALE_INT_FLOAT_WRITE", "GET_SIMPLE_FORMAT_COUNT", "GET_SIMPLE_FORMAT", "GET_FORMAT_INFO",
             "GET_FORMAT_MAJOR_COUNT", "GET_FORMAT_MAJOR", "GET_FORMAT_SUBTYPE_COUNT", "GET_FORMAT_SUBTYPE", "CALC_SIGNAL_MAX", "CALC_NORM_SIGNAL_MAX",
             "CALC_MAX_ALL_CHANNELS", "CALC_NORM_MAX_ALL_CHANNELS", "GET_SIGNAL_MAX", "GET_MAX_ALL_CHANNELS", "SET_ADD_PEAK_CHUNK",
             "UPDATE_HEADER_NOW", "SET_UPDATE_HEADER_AUTO", "FILE_TRUNCATE", "SET_RAW_START_OFFSET", "SET_DITHER_ON_WRITE", "SET_DITHER_ON_READ",
             "GET_DITHER_INFO_COUNT", "GET_DITHER_INFO", "GET_EMBED_FILE_INFO", "SET_CLIPPING", "GET_CLIPPING", "GET_CUE_COUNT", "GET_CUE", "SET_CUE",
             "GET_INSTRUMENT", "SET_INSTRUMENT", "GET_LOOP_INFO", "GET_BROADCAST_INFO", "SET_BROADCAST_INFO", "GET_CHANNEL_MAP_INFO", "SET_CHANNEL_MAP_INFO",
             "RAW_DATA_NEEDS_ENDSWAP", "WAVEX_SET_AMBISONIC", "WAVEX_GET_AMBISONIC", "RF64_AUTO_DOWNGRADE", "SET_VBR_ENCODING_QUALITY", "SET_COMPRESSION_LEVEL",
             "SET_CART_INFO", "GET_CART_INFO", "SET_ORIGINAL_SAMPLERATE", "GET_ORIGINAL_SAMPLERATE", "SET_BITRATE_MODE", "GET_BITRATE_MODE",
             "TEST_IEEE_FLOAT_REPLACE", "SET_OGG_PAGE_LATENCY_MS", "SET_OGG_PAGE_LATENCY", "GET_OGG_STREAM_SERIALNO"]


def c17(tier):
    t0 = time.time()
    exe = vlib.build()
    rng = random.Random(vlib.SEED)
    undefined = ["0", "1", "-1", "0x0FFF", "0x1235", "0x7FFFFFFF", "0x1001", "0x10FF", "0x1400", "0x13FF"]
    structs = [4, 8, 16, 24, 28, 32, 44, 56, 216, 220, 858, 1112, 2316, 2572, 27204, 27208]
    base = list(range(0, 41))
    # offsets of the fields that follow a variable or optional part (coding_history_size, coding_history, tag_text_size, tag_text ...):
    # a size that ends inside such a field is where a late store goes wrong
    inner = [604, 608, 2048, 2052, 284, 564]
    sizes = sorted(set(base + [x + d for x in structs for d in ((-1, 0, 1, 8) if tier == "quick" else range(-2, 9))] + [x + d for x in inner for d in range(-1, 5)]
                       + [4096] + ([] if tier == "quick" else [1 << 20])))
    sizes = [x for x in sizes if x >= 0]
    handles = [("none", None, None)]
    fmts = [(0x10002, 2), (0x40006, 1)] if tier == "quick" else [(0x10002, 2), (0x10006, 1), (0x130002, 2), (0x220002, 1), (0x20002, 2), (0x20006, 1), (0x180002, 2), (0x180006, 1), (0x40002, 1), (0x40006, 2)]
    for fmt, ch in fmts:
        for mode in ("r", "w", "w0", "rw"):          # w0: write handle on which no audio has been written yet (the state the setters are for)
            handles.append((mode, fmt, ch))
    names = CMD_NAMES + undefined
    od = os.path.join(vlib.ROOT, "out", "C17", tier)
    import shutil
    shutil.rmtree(od, ignore_errors=True)
    os.makedirs(od)
    lines, sid, ncalls = [], 0, 0
    for hi, (mode, fmt, ch) in enumerate(handles):
        for nm in names:
            sid += 1
            lines.append("scn %d kind=c17 name=%s hmode=%s fmt=%s" % (sid, nm, mode, "0x%x" % fmt if fmt else "0"))
            if fmt:
                T = gen_core.type_for(fmt)
                # the file carries every metadata item its container takes, so that the get commands have something to copy out
                # (chunks that end up behind the audio -- strings, cues, instrument -- make the library refuse an RDWR open: left out for rw)
                rich = ["setmeta 0 bext 4 9 30", "setmeta 0 cart 5 6 12", "setmeta 0 chmap 1 1"] + ([] if mode == "rw" else ["setstr 0 1 5469746c65", "setmeta 0 cues 3 5 3", "setmeta 0 inst 2 1 1"])
                lines += ["file 1 new", "open 0 fd w 1 %d %d %d" % (fmt, ch, RATE)] + rich + ["write 0 %s f 40 gen noise 3 0" % T, "close 0",
                          "open 0 fd %s 1 %d %d %d" % ("w" if mode == "w0" else mode, fmt, ch, RATE)]
                if mode in ("r", "rw"):
                    lines.append("read 0 %s f 3" % T)
                if mode in ("w", "rw"):
                    lines.append("write 0 %s f 2 gen noise 4 0" % T)
            for sz in sizes:
                if tier == "quick" and sz > 60 and rng.random() < 0.5 and not any(0 <= sz - x + 1 <= 5 for x in inner):
                    continue
                for hasdata in (0, 1):
                    lines.append("cmdgrid %d %s %d %d" % (0 if fmt else -1, nm, sz, hasdata))
                    ncalls += 1
            lines.append("cmdgrid %d %s 2147483647 0" % (0 if fmt else -1, nm))
            ncalls += 1
            if fmt:
                lines.append("close 0")
    shards, nscn = vlib.split_scenarios(lines, vlib.NPROC)
    jobs = []
    for k, sh in enumerate(shards):
        sp = os.path.join(od, "grid_%02d.script" % k)
        open(sp, "w").write("\n".join(sh) + "\n")
        jobs.append((sp, sp.replace(".script", ".ndjson")))

    def one(job):
        sp, ep = job
        r = vlib.run_driver(exe, sp, ep, timeout=30)
        v = vlib.validate_trace(ep, "TraceCmd.tla", "TraceCmd.cfg", heap="8g")
        for b in v["bad"]:
            b["script"], b["trace"] = sp, ep
        v["restarts"] = r
        return v
    vs = vlib.parallel(jobs, one)
    bad = [b for v in vs for b in v["bad"]]
    # vacuity guard: every (format, handle state) of the grid must really have been reached (an open that fails would silently
    # turn the whole column into NULL-handle calls -- it did once for WAV read/write handles)
    reached = collections.defaultdict(int)
    for _, ep in jobs:
        cur = None
        for ln in open(ep):
            if '"op":"reset"' in ln:
                c = json.loads(ln)["cfg"]
                cur = (c.get("fmt"), c.get("hmode"))
            elif '"op":"cmdgrid"' in ln and cur and '"hstate":0,' not in ln:
                reached[cur] += 1
    missing = [(m, "0x%x" % f) for (m, f, _) in handles if f and reached[(f, m)] == 0]
    if missing:
        raise Infra("C17 grid: handle states never reached (open failed?): %s" % missing)
    # confirm: one representative per (command, reason, handle state)
    seen, todo = set(), []
    for b in bad:
        key = (b.get("name"), b["why"], b.get("hstate"), b.get("hasdata"))
        if key not in seen:
            seen.add(key)
            todo.append(b)
    rd = os.path.join(od, "replay")
    os.makedirs(rd, exist_ok=True)

    def conf(b):
        sc = vlib.scenario_text(open(b["script"]).read().splitlines(), b["s"])
        rp = os.path.join(rd, "s%d.script" % b["s"])
        open(rp, "w").write("\n".join(sc) + "\n")
        ep = rp.replace(".script", ".ndjson")
        vlib.run_driver(exe, rp, ep, timeout=30)
        v = vlib.validate_trace(ep, "TraceCmd.tla", "TraceCmd.cfg")
        hit = [x for x in v["bad"] if x.get("name") == b.get("name") and x["why"] == b["why"]]
        if hit:
            cfgd = json.loads(open(ep).readline()).get("cfg", {})
            cfgd.update({"size": hit[0].get("size"), "hasdata": hit[0].get("hasdata"), "hstate": hit[0].get("hstate")})
            return {"op": "cmdgrid", "why": b["why"], "why2": b["why"], "replay": os.path.relpath(rp, vlib.ROOT), "cfg": cfgd}
        return None
    confirmed = [r for r in vlib.parallel(todo[:300], conf) if r]
    cov = {"states": sum(v["tlc_states"] for v in vs), "transitions": sum(v["lines"] for v in vs), "traces_validated_against_impl": len(jobs),
           "evaluations": ncalls, "distinct_nontrivial": len(names) * len(handles),
           "rule": "grid: %d command identifiers (every SFC_* of include/sndfile.h plus %d undefined ids) x datasize %s... (%d values, incl. struct sizes -1/0/+1/+8, 4096, INT_MAX with NULL) x data in {NULL, exact-size block ending at a PROT_NONE page} x handle in {NULL, read, write, read/write} x formats %s; distinct_nontrivial = (command, handle state/format) pairs" % (len(names), len(undefined), sizes[:12], len(sizes), ["0x%x" % f for f, _ in fmts]),
           "samples": [lines[:12]], "exhaustive": tier == "thorough", "rejected_first_pass": len(bad), "rejected_confirmed": len(confirmed),
           "queries_checked_pure": sum(v.get("queries", 0) for v in vs)}
    return vlib.finish("C17", tier, "model_checking", cov, t0, confirmed,
                       assumptions=["an access outside the block is observed as a page fault (PROT_NONE fence) or by ASan", "the hook snapshot covers the handle's position, settings and metadata bookkeeping"])


REGISTRY = {"C01": c01, "C07": c07, "C15": c15, "C10": c10, "C13": c13, "C03": c03, "C18": c18, "C12": c12, "C17": c17, "C20": c20, "C02": c02, "C11": c11, "C19": c19, "C14": c14, "C16": c16, "C04": c04, "C05": c05, "C06": c06, "C08": c08, "C09": c09}


def replay(prop, path):
    """re-run one scenario script (as written under out/<prop>/<tier>/replay/) through driver + validator"""
    exe = vlib.build()
    ep = os.path.join(vlib.ROOT, "out", "replay_%s.ndjson" % prop)
    os.makedirs(os.path.dirname(ep), exist_ok=True)
    vlib.run_driver(exe, path if os.path.isabs(path) else os.path.join(vlib.ROOT, path), ep)
    mod, cfg = REPLAY_MODULE.get(prop, ("TraceCore.tla", "TraceCore.cfg"))
    v = vlib.validate_trace(ep, mod, cfg)
    print(json.dumps(v["bad"]))
    if v["bad"]:
        print("VIOLATION property=%s replay=%s" % (prop, path))
        return 1
    return 0


REPLAY_MODULE = {}
