"""Hand-built valid files containing chunk types the library reads but never writes (inputs only: C03 / C16 mutate them).
Built from the published container layouts (AIFF 1.3 / AIFF-C, RIFF WAVE with smpl / cue / adtl / inst / acid chunks)."""
import struct


def _ext80(rate):
    """IEEE 754 80 bit extended, big endian, for a positive integer rate"""
    if rate == 0:
        return b"\0" * 10
    e = rate.bit_length() - 1
    mant = rate << (63 - e)
    return struct.pack(">HQ", 16383 + e, mant)


def _ck(cid, payload, big=True):
    out = cid + struct.pack(">I" if big else "<I", len(payload)) + payload
    if len(payload) & 1:
        out += b"\0"
    return out


def _pstr(s):
    b = bytes([len(s)]) + s
    return b + (b"\0" if len(b) & 1 else b"")


def aiff_inst_mark(ch=1, frames=64, aifc=False, nmark=3):
    data = bytes((i * 7 + 3) & 0xFF for i in range(frames * ch * 2))
    comm = struct.pack(">hIh", ch, frames, 16) + _ext80(44100)
    if aifc:
        comm += b"NONE" + _pstr(b"not compressed")
    marks = struct.pack(">H", nmark) + b"".join(struct.pack(">hI", i + 1, (10 * (i + 1)) % frames) + _pstr(b"mk%d" % i) for i in range(nmark))
    inst = struct.pack(">bbbbbbh", 60, 0, 0, 127, 1, 127, 0) + struct.pack(">hhh", 1, 1, 2) + struct.pack(">hhh", 0, 2, 3)
    comt = struct.pack(">H", 1) + struct.pack(">IhH", 0, 1, 5) + b"hello\0"
    body = (_ck(b"FVER", struct.pack(">I", 0xA2805140)) if aifc else b"") + _ck(b"COMM", comm) + _ck(b"INST", inst) + _ck(b"MARK", marks) \
        + _ck(b"NAME", b"Title") + _ck(b"AUTH", b"Artist") + _ck(b"ANNO", b"Comment") + _ck(b"(c) ", b"1999 x") + _ck(b"COMT", comt) \
        + _ck(b"APPL", b"stocappl data") + _ck(b"SSND", struct.pack(">II", 0, 0) + data)
    form = (b"AIFC" if aifc else b"AIFF") + body
    return b"FORM" + struct.pack(">I", len(form)) + form


def wav_smpl_cue(ch=1, frames=64, extensible=False, ncue=2, lablen=0):
    data = bytes((i * 5 + 1) & 0xFF for i in range(frames * ch * 2))
    if extensible:
        fmt = struct.pack("<HHIIHHHHI", 0xFFFE, ch, 44100, 44100 * ch * 2, ch * 2, 16, 22, 16, 3 if ch == 2 else 4) + b"\x01\x00\x00\x00\x00\x00\x10\x00\x80\x00\x00\xaa\x00\x38\x9b\x71"
    else:
        fmt = struct.pack("<HHIIHH", 1, ch, 44100, 44100 * ch * 2, ch * 2, 16)
    cue = struct.pack("<I", ncue) + b"".join(struct.pack("<II4sIII", i + 1, (10 * i) % frames, b"data", 0, 0, (10 * i) % frames) for i in range(ncue))
    adtl = b"adtl" + _ck(b"labl", struct.pack("<I", 1) + b"first\0", big=False) \
        + (_ck(b"labl", struct.pack("<I", ncue) + b"L" * lablen + b"\0", big=False) if lablen else b"") + _ck(b"note", struct.pack("<I", 2) + b"second note\0", big=False) \
        + _ck(b"ltxt", struct.pack("<II4sHHHH", 1, 20, b"rgn ", 0, 0, 0, 0) + b"text\0", big=False)
    smpl = struct.pack("<9I", 0, 0, 22675, 60, 0, 0, 0, 2, 0) + b"".join(struct.pack("<6I", i, 0, 5 * i, 5 * i + 20, 0, 0) for i in range(2))
    inst = struct.pack("<bbbbbbb", 60, 0, 0, 0, 127, 1, 127)
    acid = struct.pack("<IHHfIHHf", 1, 60, 0x8000, 0.0, 4, 4, 4, 120.0)
    fact = struct.pack("<I", frames)
    info = b"INFO" + _ck(b"INAM", b"Title\0", big=False) + _ck(b"IART", b"Artist\0", big=False) + _ck(b"ICMT", b"Comment\0", big=False)
    body = _ck(b"fmt ", fmt, big=False) + _ck(b"fact", fact, big=False) + _ck(b"cue ", cue, big=False) + _ck(b"LIST", adtl, big=False) \
        + _ck(b"smpl", smpl, big=False) + _ck(b"inst", inst, big=False) + _ck(b"acid", acid, big=False) + _ck(b"LIST", info, big=False) \
        + _ck(b"JUNK", b"\0" * 10, big=False) + _ck(b"data", data, big=False) + _ck(b"PAD ", b"\0" * 6, big=False)
    riff = b"WAVE" + body
    return b"RIFF" + struct.pack("<I", len(riff)) + riff


def au_annotated(nann, ch=1, frames=80):
    """AU file (16 bit PCM) whose annotation field is nann bytes long: data offset 24 + nann"""
    data = b"".join(struct.pack(">h", ((i * 37) % 2000) - 1000) for i in range(frames * ch))
    ann = (b"annotation " * (nann // 11 + 1))[:nann]
    return b".snd" + struct.pack(">IIIII", 24 + nann, len(data), 3, 8000, ch) + ann + data


def big_chunk_files(n, frames=40):
    """[WAV, AIFF] (16 bit mono) with an unknown chunk of n bytes in front of the audio"""
    pay = bytes((i * 7 + 3) & 0xFF for i in range(n))
    au = b"".join(struct.pack("<h", (i * 321) % 20000 - 10000) for i in range(frames))
    body = b"WAVE" + _ck(b"fmt ", struct.pack("<HHIIHH", 1, 1, 8000, 16000, 2, 16), big=False) + _ck(b"zzzz", pay, big=False) + _ck(b"data", au, big=False)
    wav = b"RIFF" + struct.pack("<I", len(body)) + body
    aub = b"".join(struct.pack(">h", (i * 321) % 20000 - 10000) for i in range(frames))
    comm = struct.pack(">hIh", 1, frames, 16) + b"\x40\x0b\xfa\x00\x00\x00\x00\x00\x00\x00"       # 8000 Hz as 80 bit extended
    body = b"AIFF" + _ck(b"COMM", comm) + _ck(b"zzzz", pay) + _ck(b"SSND", struct.pack(">II", 0, 0) + aub)
    aiff = b"FORM" + struct.pack(">I", len(body)) + body
    return [wav, aiff]


def crafted():
    """[(fmt, ch, bytes, dataoffset)]"""
    out = []
    for ch in (1, 2):
        a = aiff_inst_mark(ch)
        out.append((0x20002, ch, a, a.index(b"SSND") + 16))
        w = wav_smpl_cue(ch)
        out.append((0x10002, ch, w, w.index(b"data") + 8))
    a = aiff_inst_mark(1, aifc=True)
    out.append((0x20002, 1, a, a.index(b"SSND") + 16))
    w = wav_smpl_cue(2, extensible=True)
    out.append((0x130002, 2, w, w.index(b"data") + 8))
    # more chunks than the reader's chunk table holds before it has to grow (20, 31, 47 ...)
    w = wav_smpl_cue(1)
    extra = b"".join(_ck(b"xtr%c" % (65 + i % 26), bytes([i]) * (i % 7), big=False) for i in range(60))
    body = w[12:]
    k = body.rindex(b"data")
    w2 = b"WAVE" + body[:k] + extra + body[k:]
    w2 = b"RIFF" + struct.pack("<I", len(w2)) + w2
    out.append((0x10002, 1, w2, w2.rindex(b"data") + 8))
    a = aiff_inst_mark(1)
    extra = b"".join(_ck(b"xtr%c" % (65 + i % 26), bytes([i]) * (i % 7)) for i in range(60))
    k = a.index(b"SSND")
    a2 = a[8:k] + extra + a[k:]
    a2 = b"FORM" + struct.pack(">I", len(a2)) + a2
    out.append((0x20002, 1, a2, a2.index(b"SSND") + 16))
    # labels as long as and longer than the 256 byte name field of a cue point (for the last cue point: the end of the allocation)
    for ll in (255, 256, 300):
        w = wav_smpl_cue(1, lablen=ll)
        out.append((0x10002, 1, w, w.rindex(b"data") + 8))
    # more cue points / markers than the fixed-size SF_CUES a caller usually passes (100)
    w = wav_smpl_cue(1, ncue=120)
    out.append((0x10002, 1, w, 120))
    a = aiff_inst_mark(1, nmark=120)
    out.append((0x20002, 1, a, 120))
    return out
