#!/usr/bin/env python3
"""writes MANIFEST.json from the table below (claimed checks = those in checks.REGISTRY)"""
import json, os, sys, subprocess
ROOT = os.path.dirname(os.path.dirname(os.path.abspath(__file__)))
sys.path.insert(0, os.path.join(ROOT, "tools"))
import checks

TEXT = {
 "C01": ("model_checking", "TLA+ handle model (SfHandle) + trace validation of write/close/re-open/read executions on every format the library enumerates; equality of the data read back with the data written is decided by TLC (ReadOK) for every pair the spec's Lossless() table declares lossless", "MC_rw bounded model + TraceCore trace validation"),
 "C04": ("model_checking", "re-open clauses OpenWrittenOK / FramesAfterClose (N <= F < N+B with the spec's BlockFrames table, parameters, stale frames ignored) evaluated by TLC on recorded executions over all writable formats x N x rates x splits", "TraceCore trace validation (OpenWrittenOK) + MC_rw"),
 "C05": ("model_checking", "count/bounds/position contract of ReadOK/WriteOK/RawReadOK model-checked on the bounded handle model and evaluated on recorded executions (all formats, request-size grid, guard-banded buffers, ASan)", "MC_rw invariants C05_* + TraceCore trace validation"),
 "C06": ("model_checking", "stream = function of frame index ('known' content map) and the seek contract (SeekOK) checked by TLC on all TLC-enumerated seek/read histories and on seeded seek/read sequences at block edges for every format", "TLC history enumeration (Gen_rw) replayed + TraceCore validation"),
 "C08": ("model_checking", "two-pointer RDWR semantics: invariants C08_* exhaustively on the bounded model, all TLC-enumerated RDWR histories replayed into the library and validated, seeded long RDWR sequences on all formats", "MC_rw + Gen_rw replay + TraceCore validation"),
 "C09": ("model_checking", "failure atomicity / clean success: C09_Atomic, C09_Clean on the bounded model; recorded executions with every kind of invalid call validated (state unchanged, error set, message non-empty), failing opens, error table", "MC_rw invariants C09_* + TraceCore validation"),
 "C07": ("model_checking", "byte identity of files written from the same samples under different partitions / call variants / header updates / processes, decided by TLC (SameBytesOK, CanonOK in TraceCore) over every writable format", "TraceCore digest clauses + MC_rw"),
 "C11": ("model_checking", "crash images (copy of the backing store after every header update) opened by a second handle and validated by TLC against the writer's model state: parameters, whole-block frame count, prefix data; finished file identical to a twin without updates", "TraceCore (FileEffect/OpenWrittenOK image clauses)"),
 "C19": ("model_checking", "per-handle model states in TraceCore: interleaved multi-handle executions are explained only if every handle behaves as if alone; solo re-runs must give byte identical files; concurrent readers share the content map; foreign (mutated) files and setter commands on other handles as the 'earlier library use'", "TraceCore multi-handle validation"),
 "C14": ("model_checking", "route independence: same content through vio/fd/path/embedded/pipe validated against one content map; byte identity across write routes; descriptor closed iff close_desc (CloseOK)", "TraceCore validation across routes"),
 "C15": ("model_checking", "complete enumeration of fault points x kinds x persistence for representative workloads, each execution validated by TLC with the widened (relax) outcome sets of SfHandle; faults count only once they changed a callback's answer (strict clauses before; absorbed single-shot seek faults return to them); stream growth under transfer faults (StreamLenOK); real OS errors on the descriptor route (fdclose); watchdog for non-returning calls; ledger at scenario end", "fault enumeration + TraceCore (relax clauses)"),
 "C16": ("model_checking", "ledger clauses EndOK / OpenFailedOK evaluated by TLC on every scenario: heap (ASan allocator statistics), descriptors, temp files; dedicated sweeps of opens failing at each parse depth (truncations, systematic header-field mutations, SD2 resource forks), writers under persistent transfer faults", "TraceCore ledger clauses"),
 "C02": ("model_checking", "the conversion rules as exact arithmetic in TLA+ (SfConv: MSB rule, offset 128, value/2^(w-1), nearest integer to x*(2^(w-1)-1) with the float-precision product, saturation) evaluated by TLC on recorded (input, output) pairs: all 65536 shorts and all 8/16 bit codes exhaustively, sampled 24/32 bit codes, the full 8/16 bit float target grids, 24/32 bit float targets (ScaleWide), G.711 targets; identities model-checked in MC_conv; in TraceCore: agreement of the four caller types on every integer-coded encoding of every container (XTypeOK) and float data read through the integer types (FloatToIntOK)", "TraceConv (SfConv rules) + MC_conv"),
 "C03": ("model_checking", "structure-aware mutation of valid files of every format, each execution validated by TLC in the hostile class of TraceCore (NULL+error or sane SF_INFO; counts, positions, guard bands; every call returns; ledger), memory errors observed by ASan; sampling of the input space, not a proof about the parsers", "mutation corpus + TraceCore hostile-class validation"),
 "C10": ("model_checking", "the agreement predicate Consistent (sf_format_check = sf_open(SFM_WRITE) outcome, accepted tuples write through 4 types, close, re-open as the same format; rejected ones fail with an error) and the enumeration soundness clauses evaluated by TLC on the complete grid (thorough) / a sub-grid reaching every rule (quick)", "TraceFormat over the complete format grid"),
 "C12": ("model_checking", "Get(Reopen(Set v)) = Norm(v) decided by TLC (GetMetaOK: support matrix, software suffix, CR/LF normalisation, appended history line, per-container representable fields) for strings, bext, cart, cues, instrument, channel map over lengths up to the limits and several orders", "TraceCore metadata clauses"),
 "C13": ("model_checking", "chunk table model (MC_chunks: used <= capacity through every growth step, iterator visits once) and trace validation of set/iterate/get on WAV, WAVEX, RF64, AIFF, CAF with counts crossing every capacity step; hook reports used/capacity; guard bands and ASan", "MC_chunks + TraceCore chunk clauses"),
 "C17": ("model_checking", "TraceCmd: for every command id x datasize x {NULL, exact-size block fenced by a PROT_NONE page} x handle state: no access outside the block, defined return, NUL termination, queries are stuttering steps on the complete hook snapshot, the backing store and a fingerprint of all metadata the public getters show", "TraceCmd over the command grid"),
 "C18": ("model_checking", "true maxima computed by TLC from the content the model holds (exact dyadics on the k/1024 grid / integer codes) and compared with PEAK values and positions, SFC_GET_* after re-open and SFC_CALC_* results; position and normalisation unchanged", "TraceCore C18 clauses (CalcValsOK, PeakQOK)"),
 "C20": ("model_checking", "G.711 written in TLA+ from the Recommendation (SfG711) compared with the library on all 256 codes and all 65536 inputs through every sample type; portable IEEE serialisers against the native bit pattern on stratified patterns; byte order of integers; identities of the definitions model-checked (MC_conv). IMA (WAV/W64 and AIFF layouts) and MS ADPCM reference decoders in TLA+ (SfAdpcm) compared with the library on random, extreme and hostile-header block bytes (TraceAdpcm)", "TraceConv (SfG711) + MC_conv"),
}
NOTE = "trusted: TLC, the driver's faithful reporting (harness/sfdrive.c), the hook sf_verif_snapshot (read-only copy of handle fields), clang ASan; bounded inputs as listed in the evidence file"


def main():
    props = [json.loads(l) for l in open(os.path.join(ROOT, "properties.jsonl"))]
    claimed = sorted(checks.REGISTRY)
    hook_commits = subprocess.run(["git", "-C", "/repo", "log", "--format=%h", "--grep=^verif hook"], capture_output=True, text=True).stdout.split()
    m = {"version": 1,
         "setup_cmd": "bin/build.sh asan >/dev/null",
         "hooks": {"guard": "LIBSNDFILE_VERIF", "enable": "bin/build.sh configures an out-of-tree cmake build of /repo with -DLIBSNDFILE_VERIF=1 (clang, ASan) under /verif/build",
                   "baseline_off_cmd": "cmake --build /repo/_build && ctest --test-dir /repo/_build -j8 --timeout 900",
                   "source_commits": hook_commits, "add_only": True},
         "engines": [{"name": "tlc-trace-validation", "path": "spec/TraceCore.tla", "serves_properties": claimed, "kind_free_text": "TLA+ spec of the API (SfTypes, SfHandle) + resynchronising trace validator; TLC decides"},
                     {"name": "tlc-bounded-model", "path": "spec/MC_rw.tla", "serves_properties": [p for p in claimed if p in ("C01", "C04", "C05", "C06", "C08", "C09")], "kind_free_text": "bounded model checking and history generation"},
                     {"name": "sfdrive", "path": "harness/sfdrive.c", "serves_properties": claimed, "kind_free_text": "script interpreter recording one ndjson event per API call from the library rebuilt from /repo"}],
         "checks": [], "not_applicable": [],
         "notes": "see DESIGN.md; known findings in known_findings.json"}
    for p in props:
        pid = p["id"]
        if pid in claimed:
            lvl, text, tech = TEXT.get(pid, ("model_checking", "TLA+ model + trace validation", "TLC"))
            m["checks"].append({"property_id": pid, "quick_cmd": "bin/check %s --tier quick" % pid, "thorough_cmd": "bin/check %s --tier thorough" % pid,
                                "evidence_file": "evidence/%s.json" % pid, "replay_cmd_template": "bin/check %s --replay {path}" % pid,
                                "engine": "tlc-trace-validation", "level_claimed": {"category": lvl, "text": text, "design_ref": "DESIGN.md section 6 " + pid},
                                "level_note": NOTE, "technique": tech})
        else:
            m["not_applicable"].append({"property_id": pid, "reason": "check not built yet in this session (planned: see DESIGN.md section 6 %s)" % pid})
    json.dump(m, open(os.path.join(ROOT, "MANIFEST.json"), "w"), indent=1)


main()
