import sys, json
# usage: showbad.py trace scn [ctx]
tr, s = sys.argv[1], int(sys.argv[2])
for ln in open(tr):
    if ln.startswith('{"s":%d,' % s):
        e = json.loads(ln)
        for k in ("out", "v"):
            if k in e and len(e[k]) > 12: e[k] = e[k][:12] + ["...%d" % len(e[k])]
        st = e.pop("st", None)
        print(json.dumps(e), ("st=" + json.dumps({k: st[k] for k in ("rp", "wp", "fr", "er", "hw", "md")})) if st else "")
