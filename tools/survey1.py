import sys, random, json, time, os
sys.path.insert(0, os.path.dirname(__file__))
import vlib, formats, scen
exe = vlib.build()
rng = random.Random(1)
S = scen.Script()
w = formats.writable(exe, chans=(1, 2), rate=8000)
for fmt, ch in w:
    rate = 8000
    B = scen.block_hint(fmt, ch, rate)
    for T in "sifd":
        lc = scen.lossless_class(fmt, T)
        cls, par = lc if lc else ("noise", 0)
        for N in sorted(set([0, 1, 2, B - 1, B, B + 1, 2 * B + 1, 137])):
            if N < 0: continue
            if T in "fd" and N not in (0, 1, B + 1, 137): continue
            for sp in scen.splits(N, rng, kinds=1):
                S.scn(fmt="0x%x" % fmt, ch=ch, T=T, N=N, kind="wr")
                rt = scen.route_for(fmt)
                S.add("file 1 new", "open 0 %s w 1 %d %d %d %d" % (rt, fmt, ch, rate, 123456))
                for i, p in enumerate(sp):
                    S.add("write 0 %s f %d gen %s %d %d" % (T, p, cls, rng.randint(1, 10**6), par))
                S.add("close 0")
                ofmt = fmt if scen.major(fmt) == scen.RAW else 0
                S.add("open 1 %s r 1 %d %d %d" % (rt, ofmt, ch, rate))
                for c in scen.read_plan(N + min(B, 400) + 3, rng):
                    S.add("read 1 %s f %d" % (T, c))
                S.add("read 1 %s i %d" % (T, 3 * ch))
                # seeks
                for k in sorted(set([0, max(0, N // 2), max(0, N - 1), N])):
                    S.add("seek 1 %d 0" % k, "read 1 %s f 3" % T)
                S.add("seek 1 0 1", "close 1")
t0 = time.time()
m = vlib.drive_and_validate("survey", "s1", exe, S.lines)
print("scenarios", m["scenarios"], "events", m["events"], "bad", len(m["bad"]), "restarts", m["restarts"], "t", time.time() - t0)
from collections import Counter
c = Counter()
ex = {}
for b in m["bad"]:
    ev0 = None
    # find cfg from the script
    for ln in open(b["script"]):
        if ln.startswith("scn %d " % b["s"]):
            cfg = dict(kv.split("=") for kv in ln.split()[2:])
            break
    key = (cfg["fmt"], b["why"])
    c[key] += 1
    ex.setdefault(key, (cfg, b["i"], b["trace"]))
for k, n in sorted(c.items()):
    print(k, n, ex[k])
