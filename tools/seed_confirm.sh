#!/bin/bash
# usage: seed_confirm.sh <worktree id e.g. C06> [name]
# confirms a seeded change in its scratch worktree: patch applies to a clean tree, builds, 143 tests pass,
# demo fails with the change and passes without it.  Copies patch/demo/README to /verif/seeded/<name>/.
ID=$1; NAME=${2:-$ID}
W=/tmp/wt_$ID; B=/tmp/wt_${ID}_build
set -e
[ -f $W/patch.diff ] || { echo "no patch"; exit 2; }
git -C $W checkout -q -- src include 2>/dev/null || true
git -C $W apply --check patch.diff
git -C $W apply patch.diff
cmake -G Ninja -S $W -B $B -DCMAKE_BUILD_TYPE=RelWithDebInfo >/dev/null
cmake --build $B >/dev/null 2>&1
T=$(ctest --test-dir $B -j8 --timeout 900 2>&1 | grep "tests passed")
echo "with change: $T"
DEMO=$(ls $W/demo.c)
cc -O1 -g -I$W/include -I$B/include -I$B/src -o $B/demo_confirm $DEMO $B/libsndfile.a -lm $(grep -o '\-Wl,--wrap=[a-z_]*' $W/README.txt | sort -u | tr '\n' ' ') 2>$B/demo_build.log || { echo "demo build failed"; cat $B/demo_build.log | head; }
set +e
(cd $B && timeout 120 ./demo_confirm >$B/demo_with.out 2>&1); RC1=$?
echo "demo with change: rc=$RC1 $(tail -1 $B/demo_with.out | cut -c1-160)"
git -C $W apply -R patch.diff
cmake --build $B >/dev/null 2>&1
cc -O1 -g -I$W/include -I$B/include -I$B/src -o $B/demo_confirm $DEMO $B/libsndfile.a -lm $(grep -o '\-Wl,--wrap=[a-z_]*' $W/README.txt | sort -u | tr '\n' ' ') 2>>$B/demo_build.log
(cd $B && timeout 120 ./demo_confirm >$B/demo_without.out 2>&1); RC0=$?
echo "demo without change: rc=$RC0 $(tail -1 $B/demo_without.out | cut -c1-160)"
if echo "$T" | grep -q "100% tests passed" && [ $RC1 -ne 0 ] && [ $RC0 -eq 0 ]; then
  mkdir -p /verif/seeded/$NAME
  cp $W/patch.diff $W/demo.c /verif/seeded/$NAME/
  cp $W/README.txt /verif/seeded/$NAME/README.txt 2>/dev/null
  echo "CONFIRMED $NAME"
else
  echo "NOT CONFIRMED $NAME"
fi
