"""C02 / C20 scenario generators: values and bytes only, every expectation is in spec/TraceConv.tla (SfConv, SfG711)."""
import random, struct
import scen

RAW = 0x40000
LITTLE, BIG = 0x10000000, 0x20000000


def fbits(x):
    return struct.unpack("<i", struct.pack("<f", x))[0]


def dtok(x):
    b = struct.unpack("<q", struct.pack("<d", x))[0]
    hi, lo = b >> 32, b & 0xFFFFFFFF
    return "%d:%d" % (hi, lo)


def val_tokens(T, vals):
    if T in "si":
        return [str(v) for v in vals]
    if T == "f":
        return [str(fbits(v)) for v in vals]
    return [dtok(v) for v in vals]


def enc(S, sub, big, T, vals, norm=1, clip=0, ieee=0, fmode=1, extra=None):
    fmt = RAW | sub | (BIG if big else LITTLE)
    S.scn(kind="enc", sub=sub, big=big, T=T, norm=norm, clip=clip, ieee=ieee, fmode=fmode, **(extra or {}))
    S.add("file 1 new", "open 0 vio w 1 %d 1 8000" % fmt)
    if ieee:
        S.add("cmd 0 TEST_IEEE_FLOAT_REPLACE 1")
    if not norm:
        S.add("cmd 0 SET_NORM_FLOAT 0", "cmd 0 SET_NORM_DOUBLE 0")
    if clip:
        S.add("cmd 0 SET_CLIPPING 1")
    for i in range(0, len(vals), 4096):
        chunk = vals[i:i + 4096]
        S.add("write 0 %s f %d %s" % (T, len(chunk), " ".join(chunk)))
    S.add("close 0", "file 1 dump 0 -1")


def dec(S, sub, big, T, data, norm=1, ieee=0, fmode=1, extra=None):
    fmt = RAW | sub | (BIG if big else LITTLE)
    S.scn(kind="dec", sub=sub, big=big, T=T, norm=norm, ieee=ieee, fmode=fmode, **(extra or {}))
    S.add("file 1 hex %s" % data.hex(), "file 1 dump 0 -1", "open 0 vio r 1 %d 1 8000" % fmt)
    if ieee:
        S.add("cmd 0 TEST_IEEE_FLOAT_REPLACE 1")
    if not norm:
        S.add("cmd 0 SET_NORM_FLOAT 0", "cmd 0 SET_NORM_DOUBLE 0")
    n = len(data) // {1: 1, 5: 1, 2: 2, 3: 3, 4: 4, 6: 4, 7: 8, 0x10: 1, 0x11: 1}[sub]
    S.add("read 0 %s f %d" % (T, n + 3), "close 0")


def all_shorts(step=1, lo=-32768, hi=32767):
    return list(range(lo, hi + 1, step))


def adpcm(S, layout, fmt, ch, rate, spb, nblocks, seed, kind, ba):
    """valid file of whole blocks, data section overwritten (random / extreme / hostile header bytes), dumped, decoded by the library"""
    S.scn(kind="adpcm", layout=layout, ch=ch, rate=rate, fmt="0x%x" % fmt, pat=kind)
    N = spb * nblocks
    S.add("file 1 new", "open 0 vio w 1 %d %d %d" % (fmt, ch, rate), "write 0 s f %d gen noise %d 0" % (N, seed), "close 0",
          "open 0 vio r 1 0 0 0", "close 0",
          "file 1 datapatch %d %s %d" % (seed, kind, ba), "file 1 datadump",
          "open 1 vio r 1 0 0 0", "read 1 s f %d" % (N + 5), "close 1")
