#!/bin/bash
# usage: seed_detect.sh <seed name> <property> [more properties]   -- applies seeded/<name>/patch.diff to /repo, runs the quick checks, reverts
NAME=$1; shift
cd /verif
git -C /repo apply --check /verif/seeded/$NAME/patch.diff || { echo "patch does not apply to /repo"; exit 2; }
git -C /repo apply /verif/seeded/$NAME/patch.diff
for P in "$@"; do
  OUT=$(timeout 1500 bin/check $P 2>&1); RC=$?
  NV=$(echo "$OUT" | grep -c "^VIOLATION")
  echo "seed=$NAME check=$P rc=$RC violations=$NV first: $(echo "$OUT" | grep "^VIOLATION" | head -1 | cut -c1-200)"
  [ $RC -eq 2 ] && echo "$OUT" | tail -5
done
git -C /repo checkout -- .
bin/build.sh asan >/dev/null 2>&1   # leave the build tree on the unchanged sources
