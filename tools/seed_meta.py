#!/usr/bin/env python3
"""writes seeded/<name>/meta.json from a small table + the README the author of the change wrote"""
import json, os, sys
ROOT = os.path.dirname(os.path.dirname(os.path.abspath(__file__)))
TABLE = json.load(open(os.path.join(ROOT, "seeded", "index.json")))
for name, m in TABLE.items():
    d = os.path.join(ROOT, "seeded", name)
    if os.path.isdir(d):
        json.dump(m, open(os.path.join(d, "meta.json"), "w"), indent=1)
