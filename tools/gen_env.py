"""Scenario generators for C07 (partition independence), C11 (crash images), C19 (handle isolation),
C14 (routes), C15 (I/O faults), C16 (ledger).  Inputs only."""
import json, os, random
import vlib, scen, formats, gen_core


def partitions(N, rng, k, B=1):
    """k partitions of N (frames) into write calls: one call, 1+rest, rest+1, pieces that end exactly on / one before / one after a
    block edge (B), all ones (if small), random odd pieces"""
    out = [[N]]
    if B > 1 and N >= B:
        for first in (B - 1, B, B + 1):
            if 0 < first < N:
                out.append([first, N - first])
        if N > B + 1:
            out.append([1, B, N - B - 1] if N - B - 1 > 0 else [1, N - 1])
            out.append([B, N - B - 1, 1] if N - B - 1 > 0 else [N - 1, 1])
    if N >= 2:
        out.append([1, N - 1])
        out.append([N - 1, 1])
        if N <= 12:
            out.append([1] * N)
    while len(out) < k and N >= 2:
        parts, left = [], N
        while left > 0:
            p = min(left, rng.choice([1, 2, 3, 7, 31, 61, 159, 161, 255, 505, 1021, 4097]))
            parts.append(p)
            left -= p
        if parts not in out:
            out.append(parts)
        elif rng.random() < 0.2:
            break
    return out[:k]


def c07_scenarios(S, fmt, ch, rate, N, rng, nparts, Ts=None, late_max=False):
    B = scen.block_hint(fmt, ch, rate)
    for T in (Ts or [gen_core.type_for(fmt)]):
        lc = scen.lossless_class(fmt, T)
        cls, par = lc if lc else ("noise", 0)
        seed = rng.randint(1, 10 ** 6)
        if late_max and T in "si":
            cls, par, seed = "ramp", 0, rng.randint(1, 90)          # rising integers: the maximum is the last item written
        sid = S.scn(fmt="0x%x" % fmt, ch=ch, T=T, N=N, kind="c07", ckey="c07_%d" % (S.n + 1))
        rt = scen.route_for(fmt)
        fid = 0
        for pi, parts in enumerate(partitions(N, rng, nparts, B)):
            fid += 1
            S.add("file %d new" % fid, "open 0 %s w %d %d %d %d" % (rt, fid, fmt, ch, rate))
            off = 0
            for j, p in enumerate(parts):
                if (pi + j) % 2 == 0:
                    S.add("write 0 %s f %d gen %s %d %d %d" % (T, p, cls, seed, par, off * ch))
                else:
                    S.add("write 0 %s i %d gen %s %d %d %d" % (T, p * ch, cls, seed, par, off * ch))
                off += p
                if pi % 3 == 2 and j % 2 == 0:
                    S.add("cmd 0 UPDATE_HEADER_NOW 0")
            S.add("close 0")


def c11_scenarios(S, fmt, ch, rate, rng, auto, nsteps=4, T=None):
    T = T or gen_core.type_for(fmt)
    B = scen.block_hint(fmt, ch, rate)
    lc = scen.lossless_class(fmt, T)
    cls, par = lc if lc else ("noise", 0)
    seed = rng.randint(1, 10 ** 6)
    S.scn(fmt="0x%x" % fmt, ch=ch, T=T, kind="c11", auto=auto)
    S.add("file 1 new", "open 0 vio w 1 %d %d %d" % (fmt, ch, rate))
    if auto:
        S.add("cmd 0 SET_UPDATE_HEADER_AUTO 1")
    off = 0
    img = 1
    sizes = [rng.choice([1, 2, B - 1 if B > 2 else 3, B, B + 1, 2 * B + 3, 37]) for _ in range(nsteps)]
    for k in sizes:
        S.add("write 0 %s f %d gen %s %d %d %d" % (T, k, cls, seed, par, off * ch))
        off += k
        if not auto:
            S.add("cmd 0 UPDATE_HEADER_NOW 0")
        img += 1
        S.add("file %d copy 1" % img, "open 1 vio r %d %d %d %d" % (img, fmt if scen.major(fmt) == scen.RAW else 0, ch, rate))
        for c in scen.read_plan(off + 3, rng):
            S.add("read 1 %s f %d" % (T, c))
        S.add("close 1")
    S.add("close 0", "open 1 vio r 1 %d %d %d" % (fmt if scen.major(fmt) == scen.RAW else 0, ch, rate), "read 1 %s f %d" % (T, off + B + 3), "close 1")
    # twin without header updates: the finished files must be byte identical (C07 clause in the validator)
    S.add("file 40 new", "open 0 vio w 40 %d %d %d" % (fmt, ch, rate))
    off = 0
    for k in sizes:
        S.add("write 0 %s f %d gen %s %d %d %d" % (T, k, cls, seed, par, off * ch))
        off += k
    S.add("close 0")


def c11_overwrite(S, fmt, ch, rate, rng, auto):
    """sample granular encodings: write N, seek back, overwrite in the middle, update the header while the writer is NOT at the end"""
    T = gen_core.type_for(fmt)
    lc = scen.lossless_class(fmt, T)
    cls, par = lc if lc else ("noise", 0)
    N = rng.choice([40, 100])
    p, k = rng.randint(1, N // 2), rng.randint(1, N // 3)
    S.scn(fmt="0x%x" % fmt, ch=ch, T=T, kind="c11ow", auto=auto)
    S.add("file 1 new", "open 0 vio w 1 %d %d %d" % (fmt, ch, rate))
    S.add("write 0 %s f %d gen %s %d %d" % (T, N, cls, rng.randint(1, 10 ** 6), par))
    if auto:
        S.add("cmd 0 SET_UPDATE_HEADER_AUTO 1")
    S.add("seek 0 %d 0" % p, "write 0 %s f %d gen %s %d %d" % (T, k, cls, rng.randint(1, 10 ** 6), par))
    if not auto:
        S.add("cmd 0 UPDATE_HEADER_NOW 0")
    S.add("file 2 copy 1", "open 1 vio r 2 %d %d %d" % (fmt if scen.major(fmt) == scen.RAW else 0, ch, rate), "read 1 %s f %d" % (T, N + 3), "close 1")
    # the writer carries on where it was (a header update must put the file position back), then appends
    S.add("write 0 %s f 2 gen %s %d %d" % (T, cls, rng.randint(1, 10 ** 6), par))
    if not auto:
        S.add("cmd 0 UPDATE_HEADER_NOW 0", "write 0 %s f 1 gen %s %d %d" % (T, cls, rng.randint(1, 10 ** 6), par))
    S.add("seek 0 0 2", "write 0 %s f 3 gen %s %d %d" % (T, cls, rng.randint(1, 10 ** 6), par), "close 0",
          "open 1 vio r 1 %d %d %d" % (fmt if scen.major(fmt) == scen.RAW else 0, ch, rate), "read 1 %s f %d" % (T, N + 6), "close 1")


def workload(fmt, ch, rate, rng, h, fid, kind):
    """op list for one handle (C19)"""
    T = gen_core.type_for(fmt)
    lc = scen.lossless_class(fmt, T)
    cls, par = lc if lc else ("noise", 0)
    seed = rng.randint(1, 10 ** 6)
    B = scen.block_hint(fmt, ch, rate)
    N = rng.choice([B + 3, 2 * B + 1, 50])
    rt = "vio"
    ops = []
    ofmt = fmt if scen.major(fmt) == scen.RAW else 0
    if kind == "w":
        ops.append("open %d %s w %d %d %d %d" % (h, rt, fid, fmt, ch, rate))
        off = 0
        while off < N:
            p = min(N - off, rng.choice([1, 3, 17, B, 64]))
            ops.append("write %d %s f %d gen %s %d %d %d" % (h, T, p, cls, seed, par, off * ch))
            off += p
        ops.append("close %d" % h)
        ops.append("open %d %s r %d %d %d %d" % (h, rt, fid, ofmt, ch, rate))
        for c in scen.read_plan(N + 2, rng):
            ops.append("read %d %s f %d" % (h, T, c))
        for _ in range(4):          # seeks into every block, forwards and backwards
            ops.append("seek %d %d 0" % (h, rng.choice([0, B - 1 if B > 1 else 3, B, B + 1, N - 1, N // 2])))
            ops.append("read %d %s f %d" % (h, T, rng.choice([1, 2, 5])))
        ops.append("close %d" % h)
    elif kind == "r":      # reader of an existing file (fid prepared by the caller), seeks and reads, some failing calls
        ops.append("open %d %s r %d %d %d %d" % (h, rt, fid, ofmt, ch, rate))
        for _ in range(8):
            r = rng.random()
            if r < 0.5:
                ops.append("read %d %s f %d" % (h, T, rng.choice([1, 2, 7, B + 1])))
            elif r < 0.8:
                ops.append("seek %d %d 0" % (h, rng.randint(0, N)))
            elif r < 0.9:
                ops.append("seek %d -5 0" % h)          # fails: error state of this handle only
            else:
                ops.append("errq %d" % h)
        ops.append("errq %d" % h)
        ops.append("close %d" % h)
    return ops, (T, cls, par, seed, N)


def merge(lists, rng, mode="random"):
    lists = [list(l) for l in lists]
    out = []
    while any(lists):
        if mode == "rr":
            for l in lists:
                if l:
                    out.append(l.pop(0))
        else:
            l = rng.choice([x for x in lists if x])
            out.append(l.pop(0))
    return out


def c19_scenario(S, fmts, rate, rng, mode):
    """several handles on distinct files interleaved; then each workload again alone (same samples)"""
    S.scn(kind="c19", n=len(fmts), merge=mode)
    lists, solos = [], []
    for i, (fmt, ch) in enumerate(fmts):
        st = rng.getstate()
        ops, _ = workload(fmt, ch, rate, rng, i, i + 1, "w")
        S.add("file %d new" % (i + 1))
        lists.append(ops)
        rng2 = random.Random()
        rng2.setstate(st)
        ops2, _ = workload(fmt, ch, rate, rng2, i, i + 20, "w")
        solos.append((i + 20, ops2))
    for ln in merge(lists, rng, mode):
        S.add(ln)
    for fid, ops in solos:
        S.add("file %d new" % fid)
        for ln in ops:
            S.add(ln)


def c19_readers(S, fmt, ch, rate, rng, nreaders=3):
    """several readers of the same (possibly lossy) file, interleaved: decoder state must be per handle"""
    T = gen_core.type_for(fmt)
    lc = scen.lossless_class(fmt, T)
    cls, par = lc if lc else ("noise", 0)
    B = scen.block_hint(fmt, ch, rate)
    N = 2 * B + 1 if B > 1 else 50
    S.scn(fmt="0x%x" % fmt, ch=ch, T=T, kind="c19r")
    S.add("file 1 new", "open 0 vio w 1 %d %d %d" % (fmt, ch, rate), "write 0 %s f %d gen %s %d %d" % (T, N, cls, rng.randint(1, 10 ** 6), par), "close 0")
    lists = []
    for h in range(nreaders):
        S.add("file %d copy 1" % (h + 2))
        ops = ["open %d vio r %d %d %d %d" % (h, h + 2, fmt if scen.major(fmt) == scen.RAW else 0, ch, rate)]
        for _ in range(10):
            r = rng.random()
            if r < 0.55:
                ops.append("read %d %s f %d" % (h, T, rng.choice([1, 3, B, B + 1, 7])))
            elif r < 0.85:
                ops.append("seek %d %d 0" % (h, rng.choice([0, B - 1 if B > 1 else 5, B, N - 1, N // 2])))
            else:
                ops.append("seek %d -3 0" % h)
        ops.append("errq %d" % h)
        ops.append("close %d" % h)
        lists.append(ops)
    for ln in merge(lists, rng):
        S.add(ln)


ROUTES_R = ["vio", "fd", "fdk", "path", "emb44", "emb4096", "embz44", "embz4096", "pipe"]
ROUTES_W = ["vio", "fd", "fdk", "path", "embw44"]
EMBED_OK = (1, 2, 3, 0x13)      # WAV, AIFF, AU, WAVEX (the library's embedding whitelist is what it is: failures are allowed by the spec)


def c14_scenario(S, fmt, ch, rate, rng, N=None, rich=False):
    T = gen_core.type_for(fmt)
    lc = scen.lossless_class(fmt, T)
    cls, par = lc if lc else ("noise", 0)
    B = scen.block_hint(fmt, ch, rate)
    N = N or (2 * B + 1 if B > 1 else 41)
    seed = rng.randint(1, 10 ** 6)
    S.scn(fmt="0x%x" % fmt, ch=ch, T=T, kind="c14", **({"rich": rich} if rich else {}))
    ofmt = fmt if scen.major(fmt) == scen.RAW else 0
    # rich: application chunks and a title in front of the audio (what a reader has to skip on a route that cannot seek)
    pre = ["setchunk 0 7a7a7a7a 37 11", "setstr 0 1 5469746c65", "setchunk 0 71717171 4 12"] if rich else []
    if rich and rich > 1:         # a chunk larger than the header cache: rich = payload size
        pre = ["setchunk 0 7a7a7a7a %d 11" % rich]
    # written through every route: byte identical files (validator: SameBytesOK), descriptor closed iff close_desc
    for i, rt in enumerate(ROUTES_W):
        if scen.major(fmt) == scen.SD2 and rt != "path":
            continue
        S.add("file %d new" % (i + 1), "open 0 %s w %d %d %d %d" % (rt, i + 1, fmt, ch, rate), *pre)
        S.add("write 0 %s f %d gen %s %d %d" % (T, N, cls, seed, par), "close 0")
    if scen.major(fmt) == scen.SD2:
        return
    # the same bytes read through every route: same info and samples (shared content in the validator)
    for rt in ROUTES_R:
        if rt == "pipe" and not (scen.major(fmt) in (1, 2, 3) and scen.is_granular(fmt)):
            continue
        S.add("open 1 %s r 1 %d %d %d" % (rt, ofmt, ch, rate))
        for c in scen.read_plan(N + 2, rng, chunk=rng.choice([None, 7, 64])):
            S.add("read 1 %s f %d" % (T, c))
        if rt != "pipe":
            S.add("seek 1 %d 0" % (N // 2), "read 1 %s f 3" % T)
        S.add("getstr 1 1", "info 1", "close 1")
    # garbage through every route: same failure
    S.add("file 9 hex 00112233445566778899aabbccddeeff0011223344556677")
    for rt in ("vio", "fd", "fdk", "path"):
        S.add("open 2 %s r 9 0 0 0" % rt)


def c14_foreign(S, data, ch, rng, routes=("vio", "fd", "fdk", "path", "pipe"), reads=(7, 64, 1000)):
    """a valid file that this library did not write (trust=1): every route must report the same SF_INFO and deliver the same samples"""
    S.scn(kind="c14f", trust=1, ch=ch, flen=len(data))
    S.add("file 1 hex %s" % data.hex())
    for rt in routes:
        S.add("open 1 %s r 1 0 0 0" % rt)
        for c in reads:
            S.add("read 1 s f %d" % c)
        if rt != "pipe":
            S.add("seek 1 5 0", "read 1 s f 3", "seek 1 0 0", "read 1 i f 11")
        S.add("info 1", "getstr 1 1", "close 1")


def c16_scenarios(S, exe, fmts, rate, rng, cuts):
    """opens that fail at every parse depth: a valid file truncated at each cut point; plus handles closed without I/O"""
    for fmt, ch in fmts:
        T = gen_core.type_for(fmt)
        S.scn(fmt="0x%x" % fmt, ch=ch, kind="c16", relax=1)
        S.add("file 1 new", "open 0 vio w 1 %d %d %d" % (fmt, ch, rate), "setstr 0 1 5469746c65", "write 0 %s f 64 gen noise 5 0" % T, "close 0")
        S.add("open 0 vio r 1 %d %d %d" % (fmt if scen.major(fmt) == scen.RAW else 0, ch, rate), "close 0")
        for c in cuts:
            S.add("file 2 copy 1", "file 2 trunc %d" % c, "open 1 vio r 2 0 0 0", "read 1 s f 5", "close 1")
        for c in cuts[::4]:
            S.add("file 2 copy 1", "file 2 trunc %d" % c, "open 1 fd r 2 0 0 0", "close 1", "open 1 path r 2 0 0 0", "close 1")


def c15_workloads(fmt, ch, rate):
    T = gen_core.type_for(fmt)
    B = scen.block_hint(fmt, ch, rate)
    N = 2 * B + 5 if B > 1 else 70
    ofmt = fmt if scen.major(fmt) == scen.RAW else 0
    prep = ["file 1 new", "open 0 vio w 1 %d %d %d" % (fmt, ch, rate), "write 0 %s f %d gen noise 7 0" % (T, N), "close 0"]
    wl = {
        "w": (["file 1 new"], ["open 0 vio w 1 %d %d %d" % (fmt, ch, rate), "write 0 %s f %d gen noise 7 0" % (T, B + 3), "write 0 %s f %d gen noise 8 0" % (T, N - B - 3),
                                 "cmd 0 UPDATE_HEADER_NOW 0", "write 0 %s i %d gen noise 9 0" % (T, 2 * ch), "close 0"]),
        "r": (prep, ["open 0 vio r 1 %d %d %d" % (ofmt, ch, rate), "read 0 %s f 10" % T, "seek 0 %d 0" % (N // 2), "read 0 %s f %d" % (T, B + 3), "seek 0 0 0",
                     "read 0 %s i %d" % (T, (N + 4) * ch), "seek 0 -1 2", "read 0 %s f 2" % T, "close 0"]),
    }
    if scen.is_granular(fmt):
        wl["rw"] = (prep, ["open 0 vio rw 1 %d %d %d" % (fmt, ch, rate), "write 0 %s f 3 gen noise 4 0" % T, "seek 0 0 16", "read 0 %s f 5" % T, "seek 0 2 33", "write 0 %s f 2 gen noise 5 0" % T, "close 0"])
        # read, explicit seek of the write pointer, write, explicit seek of the read pointer, read: a seek that fails once must not displace what follows
        wl["rw2"] = (prep, ["open 0 vio rw 1 %d %d %d" % (fmt, ch, rate), "seek 0 4 16", "read 0 %s f 6" % T, "seek 0 10 32", "write 0 %s f 4 gen noise 6 0" % T,
                            "seek 0 20 16", "read 0 %s f 3" % T, "seek 0 %d 32" % N, "write 0 %s f 5 gen noise 7 0" % T, "seek 0 8 0", "read 0 %s f 4" % T, "close 0"])
    if scen.is_granular(fmt) and ch == 1:
        # calls that need several staging chunks through the floating point entry points: a transfer cut short in a later chunk
        wl["wbig"] = (["file 1 new"], ["open 0 vio w 1 %d %d %d" % (fmt, ch, rate), "write 0 d f 9000 gen zeros 1 0", "write 0 f f 9000 gen zeros 1 0", "write 0 s f 9000 gen zeros 1 0", "write 0 i f 9000 gen zeros 1 0", "close 0"])
    # what the file holds afterwards is read back (judged strictly when no fault fired or the fault was absorbed, sanity only otherwise)
    for name in list(wl):
        if name != "r":
            wl[name] = (wl[name][0], wl[name][1] + ["open 1 vio r 1 %d %d %d" % (ofmt, ch, rate), "read 1 %s f %d" % (T, (N if name != "wbig" else 40) + 12), "close 1"])
    return wl


KINDS = ["zero", "short", "seekfail", "lenbig", "lensmall"]


def c15_calibrate(exe, fmts, rate):
    """fault-free run of every workload: number of I/O callbacks K between arming and the end"""
    S = scen.Script()
    keys = []
    for fmt, ch in fmts:
        for name, (prep, ops) in c15_workloads(fmt, ch, rate).items():
            S.scn(fmt="0x%x" % fmt, ch=ch, kind="cal", wl=name)
            S.add(*prep)
            S.add("fault 0")
            S.add(*ops)
            keys.append((fmt, ch, name))
    d = os.path.join(vlib.ROOT, "out", "C15")
    os.makedirs(d, exist_ok=True)
    sp, ep = os.path.join(d, "cal.script"), os.path.join(d, "cal.ndjson")
    open(sp, "w").write("\n".join(S.lines) + "\n")
    vlib.run_driver(exe, sp, ep)
    K, i = {}, -1
    for ln in open(ep):
        e = json.loads(ln)
        if e["op"] == "reset":
            i += 1
        elif e["op"] == "end":
            K[keys[i]] = e["io"]
    return K


def c15_scenarios(S, fmt, ch, rate, name, K, step=1, kinds=KINDS, stickies=(0, 1)):
    prep, ops = c15_workloads(fmt, ch, rate)[name]
    for i in range(1, K + 1, step):
        for kind in kinds:
            for st in stickies:
                S.scn(fmt="0x%x" % fmt, ch=ch, kind="c15", wl=name, at=i, fk=kind, sticky=st)
                S.add(*prep)
                S.add("fault %d %s %d" % (i, kind, st))
                S.add(*ops)


def c19_settings(S, fmtB, fmtA, rate, rng):
    """per-handle settings must stay per handle: handle A issues every setter command; a handle B opened before, during and after
    that writes the same samples (incl. -0.0, a denormal, infinities and NaN for float encodings) and must produce the same bytes;
    a reader of B's file must read the same values before and after"""
    T = "f" if scen.sub(fmtB) == 6 else "d" if scen.sub(fmtB) == 7 else "s"
    if T == "f":
        toks = ["-2147483648", "1", "8388607", "2139095040", "-8388608", "2143289344", "1065353216", "-1082130432", "1036831949", "0", "872415232", "-1275068416"]
    elif T == "d":
        toks = ["-2147483648:0", "0:1", "1048575:4294967295", "2146435072:0", "-1048576:0", "2146959360:0", "1072693248:0", "-1074790400:0", "1069128089:2576980378", "0:0"]
    else:
        toks = [str(v) for v in (0, 1, -1, 32767, -32768, 12345, -12345, 256, -256, 77)]
    wr = "write %%d %s f %d %s" % (T, len(toks), " ".join(toks))
    S.scn(fmt="0x%x" % fmtB, ch=1, T=T, kind="c19set", fmtA="0x%x" % fmtA)
    S.add("file 1 new", "open 0 vio w 1 %d 1 %d" % (fmtB, rate), wr % 0, "close 0")
    S.add("open 3 vio r 1 %d 1 %d" % (fmtB if scen.major(fmtB) == scen.RAW else 0, rate), "read 3 %s f %d" % (T, len(toks)))
    S.add("file 5 new", "open 1 vio w 5 %d 1 %d" % (fmtA, rate))
    for nm, v in (("TEST_IEEE_FLOAT_REPLACE", 1), ("SET_NORM_FLOAT", 0), ("SET_NORM_DOUBLE", 0), ("SET_CLIPPING", 1), ("SET_SCALE_INT_FLOAT_WRITE", 1), ("SET_SCALE_FLOAT_INT_READ", 1),
                  ("SET_ADD_PEAK_CHUNK", 0), ("SET_UPDATE_HEADER_AUTO", 1), ("SET_DITHER_ON_WRITE", 1), ("SET_DITHER_ON_READ", 1), ("RAW_DATA_NEEDS_ENDSWAP", 0), ("SET_ADD_HEADER_PAD_CHUNK", 1)):
        S.add("cmd 1 %s %d" % (nm, v))
    S.add("write 1 s f 4 gen noise 3 0")
    S.add("file 2 new", "open 0 vio w 2 %d 1 %d" % (fmtB, rate), wr % 0, "close 0")          # B while A is open
    S.add("seek 3 0 0", "read 3 %s f %d" % (T, len(toks)))
    S.add("close 1")
    S.add("file 4 new", "open 0 vio w 4 %d 1 %d" % (fmtB, rate), wr % 0, "close 0")          # B after A
    S.add("seek 3 0 0", "read 3 %s f %d" % (T, len(toks)), "close 3")
    S.add("open 3 vio r 4 %d 1 %d" % (fmtB if scen.major(fmtB) == scen.RAW else 0, rate), "read 3 %s f %d" % (T, len(toks)), "close 3")


def c19_foreign(S, seeds, rate, rng, nmut=12, perfield=True):
    """independence from earlier library use, with arbitrary input as the earlier use: a reader of a valid file is interrupted by
    opens (reads, closes) of mutated copies of that file -- same codec, header fields changed -- and must keep delivering the
    same stream; writers started in between must all produce the same bytes (SameBytesOK: same parameters, same samples).
    One scenario per format, so that every writer of it is compared with the first, undisturbed one."""
    import gen_c03
    for fmt, ch, data, do in seeds:
        T = gen_core.type_for(fmt)
        B = scen.block_hint(fmt, ch, rate)
        nrd = min(2 * B + 5, 9000) if B > 1 else 200
        n1 = min(B + 5, 600) if B > 1 else 60
        ofmt = fmt if scen.major(fmt) == scen.RAW else 0
        sysm = gen_c03.systematic_mutants(data, do)
        hosm = gen_c03.hostile_mutants(data, do)
        ms = rng.sample(sysm, min(nmut // 2, len(sysm))) + rng.sample(hosm, min(nmut // 2, len(hosm)))
        if B > 1 and perfield:
            # block codecs keep tables and parameters in their headers: one foreign file per header field (low byte + 1)
            hdr = max(16, min(do if do > 0 else 64, len(data), 160))
            for off in range(0, hdr - 1, 2):
                m = bytearray(data)
                m[off] = (m[off] + 1) & 0xFF
                ms.append(bytes(m))
        wseed = rng.randint(1, 10 ** 6)
        writer = ["file 2 new", "open 2 vio w 2 %d %d %d" % (fmt, ch, rate), "write 2 %s f %d gen noise %d 0" % (T, min(nrd, 300), wseed), "close 2"]
        S.scn(fmt="0x%x" % fmt, ch=ch, T=T, kind="c19f")
        S.add("file 1 hex %s" % data.hex(), "open 0 vio r 1 %d %d %d" % (ofmt, ch, rate), "read 0 %s f %d" % (T, nrd))
        S.add(*writer)
        for k, m in enumerate(ms):
            S.add("file 10 hex %s" % m.hex(), "open 1 vio r 10 %d %d %d" % (ofmt, ch, rate), "read 1 %s f 40" % T, "close 1")
            S.add("seek 0 0 0", "read 0 %s f %d" % (T, n1))
            S.add(*writer)
        S.add("seek 0 0 0", "read 0 %s f %d" % (T, nrd), "close 0")


def hexs(b):
    return b.hex() if b else "-"


def c13_scenario(S, fmt, ch, rate, rng, count, ids, payloads, late=False, shortbuf=True, cfg=None):
    """set 'count' chunks (ids cycled from ids, payload lengths from payloads) before the audio, audio, close;
    re-open: full iteration, by-id iteration, get_data with short buffers; audio read back"""
    T = gen_core.type_for(fmt)
    lc = scen.lossless_class(fmt, T)
    cls, par = lc if lc else ("noise", 0)
    tot = sum(payloads[k % len(payloads)] for k in range(count))
    S.scn(fmt="0x%x" % fmt, ch=ch, T=T, kind="c13", count=count, idlen=min(len(i) for i in ids), late=int(late), tot=tot, **(cfg or {}))
    S.add("file 1 new", "open 0 vio w 1 %d %d %d" % (fmt, ch, rate))
    chunks = []
    for k in range(count):
        cid = ids[k % len(ids)]
        dl = payloads[k % len(payloads)]
        seed = rng.randint(1, 10 ** 6)
        chunks.append((cid, dl, seed))
        S.add("setchunk 0 %s %d %d" % (hexs(cid), dl, seed))
        if k == count // 2:
            S.add("setstr 0 1 5469746c65")        # other metadata in between
    S.add("write 0 %s f 32 gen %s %d %d" % (T, cls, rng.randint(1, 10 ** 6), par))
    if late:
        S.add("setchunk 0 4c415445 6 5", "errq 0")      # after the audio: must be refused or ignored
        if count % 2 == 1:                               # ... also when the write pointer has been moved back to the start
            S.add("seek 0 0 0", "setchunk 0 4c415445 6 5", "errq 0", "seek 0 0 2")
    S.add("write 0 %s f 5 gen %s %d %d" % (T, cls, rng.randint(1, 10 ** 6), par), "close 0")
    # expected digests for every (payload, visible bytes) the reader will ask for
    need = set()
    for cid, dl, seed in chunks:
        pl = ((dl + 3) // 4) * 4
        need.add((dl, seed, pl))
        if shortbuf:
            for m in (0, 1, 3, pl - 1, pl + 5):
                if m >= 0:
                    need.add((dl, seed, min(m, pl)))
    for dl, seed, m in sorted(need):
        S.add("chexp %d %d %d" % (dl, seed, m))
    S.add("open 1 vio r 1 %d %d %d" % (fmt if scen.major(fmt) == scen.RAW else 0, ch, rate))
    S.add("read 1 %s f 40" % T, "getstr 1 1")
    # full iteration: one get per position, then next, until NULL (bounded: our chunks + container chunks)
    S.add("chit 1 0 null")
    for k in range(count + 12):
        S.add("chget 1 0 -1", "chnext 1 0")
    # by id
    for cid in sorted(set(c for c, _, _ in chunks)) + [b"ZZZZ"]:
        S.add("chit 1 0 %s" % hexs(cid))
        n = sum(1 for c, _, _ in chunks if c == cid)
        for k in range(n + 1):
            if shortbuf:
                pl = None
                S.add("chget 1 0 %d" % rng.choice([0, 1, 3]))
            S.add("chget 1 0 -1", "chnext 1 0")
    S.add("chnext 1 0", "chget 1 0 -1")
    # a by-id iterator left unexhausted, then a fresh unfiltered one: it must visit every chunk again
    S.add("chit 1 0 %s" % hexs(chunks[0][0] if chunks else b"ZZZZ"), "chget 1 0 -1", "chit 1 0 null")
    for k in range(count + 12):
        S.add("chget 1 0 -1", "chnext 1 0")
    S.add("seek 1 0 0", "read 1 %s f 3" % T, "close 1")


def c18_scenario(S, fmt, ch, rate, rng, N, layout, nparts, rdwr=False, wT=None):
    """float/double (grid k/1024, dyadic logging) or integer PCM content; PEAK queries after re-open; CALC_* at several read positions"""
    s = scen.sub(fmt)
    T = "f" if s == 6 else "d" if s == 7 else ("s" if scen.SUB_WIDTH.get(s, 16) <= 16 else "i")
    # wT: float / double file written through sf_write_short / sf_write_int (unscaled: the integer k is stored as the float k)
    S.scn(fmt="0x%x" % fmt, ch=ch, T=T, N=N, kind="c18", layout=layout, fmode=1, **({"wT": wT} if wT else {}))
    S.add("file 1 new", "open 0 vio w 1 %d %d %d" % (fmt, ch, rate))
    seed = rng.randint(1, 10 ** 6)
    # explicit values: a base of small magnitudes plus maxima placed by 'layout' (first / last frame, call boundary, ties)
    import struct
    vals = []
    for i in range(N * ch):
        k = rng.randint(-300, 300)
        vals.append(k)
    parts = partitions(N, rng, nparts)[-1]
    bounds, acc = [], 0
    for p in parts:
        acc += p
        bounds.append(acc)
    for c in range(ch):
        big = 1023 - c * 3
        if layout == "first":
            vals[c] = big
        elif layout == "last":
            vals[(N - 1) * ch + c] = -big
        elif layout == "boundary" and len(bounds) > 1:
            vals[(bounds[0] - 1) * ch + c] = big
            vals[min(bounds[0], N - 1) * ch + c] = -big          # tie on both sides of a call boundary: first one wins
        elif layout == "ties":
            for f in (N // 3, N // 2, N - 1):
                vals[f * ch + c] = big if f % 2 else -big
        elif layout == "zero":
            pass
    if layout == "zero":
        vals = [0] * (N * ch)

    def tok(k):
        if T == "f":
            return str(struct.unpack("<i", struct.pack("<f", k / 1024.0))[0])
        if T == "d":
            b = struct.unpack("<q", struct.pack("<d", k / 1024.0))[0]
            hi, lo = b >> 32, b & 0xFFFFFFFF
            return "%d:%d" % (hi, lo)
        w = scen.SUB_WIDTH.get(s, 16)
        tb = 16 if T == "s" else 32
        return str(k * (1 << (tb - 11)))        # 11 significant bits, low bits zero: exact in every PCM width >= 11... 8 bit handled by width below
    if T in "si" and scen.SUB_WIDTH.get(s, 16) == 8:
        tokf = lambda k: str((max(-127, min(127, k // 9))) * 256) if T == "s" else str((max(-127, min(127, k // 9))) * (1 << 24))
    else:
        tokf = tok
    off = 0
    if wT:
        tokf = str
    for p in parts:
        S.add("write 0 %s f %d %s" % (wT or T, p, " ".join(tokf(v) for v in vals[off * ch:(off + p) * ch])))
        off += p
    S.add("close 0")
    S.add("open 1 vio %s 1 %d %d %d" % ("rw" if rdwr else "r", fmt if (scen.major(fmt) == scen.RAW or rdwr) else 0, ch, rate))
    S.add("peakq 1", "calc 1 GET_SIGNAL_MAX", "calc 1 GET_MAX_ALL_CHANNELS")
    # the model must know the content under the caller type: one full read first
    S.add("read 1 %s f %d" % (T, N + 2), "seek 1 0 %d" % (16 if rdwr else 0))
    for pos in (0, N // 2, N):
        S.add("seek 1 %d %d" % (pos, 16 if rdwr else 0))
        for nm in ("CALC_SIGNAL_MAX", "CALC_NORM_SIGNAL_MAX", "CALC_MAX_ALL_CHANNELS", "CALC_NORM_MAX_ALL_CHANNELS"):
            S.add("calc 1 %s" % nm)
        S.add("read 1 %s f 2" % T)
    S.add("cmd 1 SET_NORM_DOUBLE 0", "calc 1 CALC_NORM_SIGNAL_MAX", "cmd 1 GET_NORM_DOUBLE 0", "close 1")


def c19_codec_pairs(S, fmt, ch, rate, rng, k=2, steps=14):
    """k readers of DIFFERENT files of the same encoding (different content and length): each file is first read through alone
    (the model learns the stream), then the handles seek and read interleaved across all blocks"""
    T = gen_core.type_for(fmt)
    lc = scen.lossless_class(fmt, T)
    cls, par = lc if lc else ("noise", 0)
    B = scen.block_hint(fmt, ch, rate)
    S.scn(fmt="0x%x" % fmt, ch=ch, T=T, kind="c19p", k=k)
    Ns = []
    ofmt = fmt if scen.major(fmt) == scen.RAW else 0
    for h in range(k):
        N = (2 + h) * B + 1 + 3 * h if B > 1 else 60 + 17 * h
        Ns.append(N)
        # different kinds of content per file (incompressible noise, a smooth ramp, silence): different block / packet layouts
        c2, p2 = [(cls, par), ("ramp", 0), ("zeros", 0)][h % 3]
        S.add("file %d new" % (h + 1), "open %d vio w %d %d %d %d" % (h, h + 1, fmt, ch, rate),
              "write %d %s f %d gen %s %d %d" % (h, T, N, c2, rng.randint(1, 10 ** 6), p2), "close %d" % h)
    for h in range(k):
        S.add("open %d vio r %d %d %d %d" % (h, h + 1, ofmt, ch, rate))
        for c in scen.read_plan(Ns[h] + 2, rng, chunk=rng.choice([None, 1000])):
            S.add("read %d %s f %d" % (h, T, c))
    lists = []
    for h in range(k):
        ops = []
        N = Ns[h]
        targets = sorted(set(t for t in [0, 1, B - 1, B, B + 1, 2 * B - 1, 2 * B, 2 * B + 1, N - 2, N - 1, N // 2, 3 * B] if 0 <= t < N))
        for _ in range(steps):
            ops.append("seek %d %d 0" % (h, rng.choice(targets)))
            ops.append("read %d %s f %d" % (h, T, rng.choice([1, 2, 5, 9])))
        ops.append("errq %d" % h)
        ops.append("close %d" % h)
        lists.append(ops)
    for ln in merge(lists, rng):
        S.add(ln)


STR_TYPES = [1, 2, 3, 4, 5, 6, 7, 8, 9, 16]


def text_hex(rng, n):
    return bytes(33 + rng.randrange(90) for _ in range(n)).hex() if n else "-"


def c12_scenario(S, fmt, ch, rate, rng, items, late=False, order=None, cfg=None):
    """set the given metadata items before the audio (or after it when late), write audio, close, re-open, get everything"""
    T = gen_core.type_for(fmt)
    lc = scen.lossless_class(fmt, T)
    cls, par = lc if lc else ("noise", 0)
    S.scn(fmt="0x%x" % fmt, ch=ch, T=T, kind="c12", late=int(late), items="+".join(i[0] for i in items), **(cfg or {}))
    S.add("file 1 new", "open 0 vio w 1 %d %d %d" % (fmt, ch, rate))
    sets = []
    for it in items:
        if it[0] == "str":
            sets.append("setstr 0 %d %s" % (it[1], text_hex(rng, it[2])))
        else:
            sets.append("setmeta 0 %s %d %d %d" % (it[0], rng.randint(1, 10 ** 5), it[1], it[2] if len(it) > 2 else 1))
    if order == "rev":
        sets.reverse()
    elif order == "shuffle":
        rng.shuffle(sets)
    if late:
        S.add("write 0 %s f 9 gen %s %d %d" % (T, cls, rng.randint(1, 10 ** 6), par))
    S.add(*sets)
    S.add("write 0 %s f 31 gen %s %d %d" % (T, cls, rng.randint(1, 10 ** 6), par), "close 0")
    S.add("open 1 vio r 1 %d %d %d" % (fmt if scen.major(fmt) == scen.RAW else 0, ch, rate), "read 1 %s f 45" % T)
    for t in STR_TYPES:
        S.add("getstr 1 %d" % t)
    for k in ("bext", "cart", "cues", "inst", "chmap"):
        S.add("getmeta 1 %s" % k)
    S.add("seek 1 0 0", "read 1 %s f 3" % T, "close 1")
