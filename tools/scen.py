"""Scenario script builders.  These only choose *inputs*; every expectation is in the TLA+ spec."""
import random

SUB_WIDTH = {1: 8, 5: 8, 2: 16, 0x41: 16, 0x51: 16, 0x70: 16, 3: 24, 0x42: 24, 0x72: 24, 4: 32, 0x73: 32, 0x40: 12, 0x71: 20}
SD2 = 0x16
RAW = 0x04


def major(fmt):
    return (fmt >> 16) & 0xFFF


def sub(fmt):
    return fmt & 0xFFFF


def route_for(fmt, default="vio"):
    return "path" if major(fmt) == SD2 else default


def lossless_class(fmt, T):
    """value class (driver generator name, param) that the encoding keeps bit exact for caller type T, or None"""
    s = sub(fmt)
    if T in "si":
        tb = 16 if T == "s" else 32
        w = SUB_WIDTH.get(s)
        if w is None:
            return None
        return ("lbz", max(0, tb - w))
    if T == "f" and s in (6, 7):
        return ("noise", 0)
    if T == "d" and s == 7:
        return ("noise", 0)
    return None


def block_hint(fmt, ch, rate):
    """only used to pick interesting N values around block edges (inputs, not expectations)"""
    s, m = sub(fmt), major(fmt)
    rc = rate * ch
    ba = 256 if rc < 12000 else 512 if rc < 23000 else 1024 if rc < 44000 else 2048
    if s == 0x12:
        return (2 * (ba - 4 * ch)) // ch + 1 if m in (1, 0xB, 0x13, 0x22) else 64
    if s == 0x13:
        return 2 + (2 * (ba - 7 * ch)) // ch
    if s == 0x20:
        return 320 if m in (1, 0xB, 0x13, 0x22) else 160
    if s in (0x30, 0x31, 0x32):
        return 120
    if s in (0x22, 0x23, 0x24):
        return 160
    if m == 0x11:
        return {1: 60, 2: 40, 3: 30}.get(s, 1)
    if m == 5 and s == 3:
        return 10
    if s in (0x70, 0x71, 0x72, 0x73):
        return 4096
    return 1


class Script:
    def __init__(self):
        self.lines = []
        self.n = 0

    def scn(self, **cfg):
        self.n += 1
        kv = " ".join("%s=%s" % (k, v) for k, v in cfg.items())
        self.lines.append("scn %d %s" % (self.n, kv))
        return self.n

    def add(self, *ls):
        self.lines.extend(ls)


def splits(n, rng, kinds=3):
    """a few partitions of n into positive parts"""
    out = [[n]] if n > 0 else [[]]
    if n >= 2:
        out.append([1, n - 1])
        k = rng.randint(1, n - 1)
        out.append([k, n - k])
        # odd-sized pieces
        parts, left = [], n
        while left > 0:
            p = min(left, rng.choice([1, 3, 7, 61, 255, 1021]))
            parts.append(p)
            left -= p
        out.append(parts)
    return out[:kinds + 1]


def read_plan(total, rng, chunk=None):
    """chunk sizes whose sum is >= total"""
    plan, s = [], 0
    while s < total:
        c = chunk or rng.choice([1, 2, 5, 17, 64, 333, 1024, 4099])
        plan.append(c)
        s += c
    return plan


def is_granular(fmt):
    s, m = sub(fmt), major(fmt)
    return s in (1, 2, 3, 4, 5, 6, 7, 0x10, 0x11) and m != 0x11 and not (m == 5 and s == 3)
