"""Common machinery of the checks: build, run the driver, run TLC (model checking and trace validation),
known findings, evidence files.  No oracle lives here: verdicts come from TLC."""
import json, os, re, shutil, subprocess, sys, time, hashlib, tempfile, glob

ROOT = os.path.dirname(os.path.dirname(os.path.abspath(__file__)))
SPEC = os.path.join(ROOT, "spec")
REPO = os.environ.get("VERIF_REPO", "/repo")
SEED = int(os.environ.get("VERIF_SEED", "1"))
NPROC = min(16, os.cpu_count() or 4)


class Infra(Exception):
    """the check itself is broken (exit 2) -- never a violation"""


def log(*a):
    print(*a, file=sys.stderr, flush=True)


_built = {}


def build(variant="asan"):
    if variant in _built:
        return _built[variant]
    env = dict(os.environ, VERIF_REPO=REPO)
    p = subprocess.run([os.path.join(ROOT, "bin", "build.sh"), variant], capture_output=True, text=True, env=env)
    if p.returncode != 0:
        raise Infra("build failed:\n" + p.stdout + p.stderr)
    exe = p.stdout.strip().splitlines()[-1]
    _built[variant] = exe
    return exe


def outdir(prop, tier):
    d = os.path.join(ROOT, "out", prop, tier)
    shutil.rmtree(d, ignore_errors=True)
    os.makedirs(d, exist_ok=True)
    return d


ASAN_ENV = {"ASAN_OPTIONS": "detect_leaks=0:abort_on_error=0:exitcode=5:allocator_may_return_null=1:handle_segv=1:allow_user_segv_handler=1:max_malloc_fill_size=65536:malloc_fill_byte=165",
            "UBSAN_OPTIONS": "halt_on_error=1:exitcode=5:print_stacktrace=1:suppressions=" + os.path.join(ROOT, "harness", "ubsan.supp")}


def run_driver(exe, script, events, timeout=20, wall=3600, append=False):
    """run one script; on a crash / time-out of the driver resume with the scenario after the one that died.
    Returns number of driver restarts."""
    nscn = sum(1 for ln in open(script) if ln.startswith("scn "))
    start = 0
    restarts = 0
    env = dict(os.environ, **ASAN_ENV)
    if append:
        # the repeated run (C07: "repeating the run later or in another process") sees a differently filled heap: output that depends
        # on uninitialised memory differs between the passes
        env["ASAN_OPTIONS"] = env["ASAN_OPTIONS"].replace("malloc_fill_byte=165", "malloc_fill_byte=90")
    while True:
        errf = events + ".stderr"
        with open(errf, "ab") as ef:
            try:
                p = subprocess.run([exe, script, events, "--from", str(start), "--timeout", str(timeout)] + (["--append"] if append else []),
                                   stdout=subprocess.DEVNULL, stderr=ef, env=env, timeout=wall)
                rc = p.returncode
            except subprocess.TimeoutExpired:
                raise Infra("driver wall-clock limit exceeded on " + script)
        if rc == 0:
            return restarts
        if rc == 2:
            raise Infra("driver usage/script error, see " + errf)
        # died inside a scenario: find which one (the last reset event) and continue after it
        last_idx = None
        with open(events, "rb") as f:
            f.seek(0, 2)
            size = f.tell()
            f.seek(max(0, size - (1 << 22)))
            tail = f.read().decode("utf-8", "replace").splitlines()
        # make sure the trace ends with a crash marker line (a hard kill leaves a partial line)
        idx_re = re.compile(r'"op":"reset","cfg":\{"idx":(\d+)')
        # scan whole file lazily only if needed
        for ln in reversed(tail):
            m = idx_re.search(ln)
            if m:
                last_idx = int(m.group(1))
                break
        if last_idx is None:
            for ln in open(events, errors="replace"):
                m = idx_re.search(ln)
                if m:
                    last_idx = int(m.group(1))
        if last_idx is None:
            raise Infra("driver died before the first scenario (rc=%d), see %s" % (rc, errf))
        # repair a partial last line and make sure a crash event is present
        data = open(events, "rb").read()
        if not data.endswith(b"\n"):
            data = data[:data.rfind(b"\n") + 1]
        lines = data.decode("utf-8", "replace").splitlines()
        if not lines or ('"op":"crash"' not in lines[-1] and '"op":"timeout"' not in lines[-1]):
            # find scenario id of the last reset
            sid = -1
            for ln in reversed(lines):
                m = re.match(r'\{"s":(-?\d+)', ln)
                if m:
                    sid = int(m.group(1))
                    break
            lines.append('{"s":%d,"i":999999,"h":-1,"op":"crash","during":"killed rc=%d"}' % (sid, rc))
        # a crash inside a call that was being logged leaves an unfinished event line just before the marker: drop it
        if len(lines) >= 2:
            try:
                json.loads(lines[-2])
            except ValueError:
                del lines[-2]
        with open(events, "w") as f:
            f.write("\n".join(lines) + "\n")
        restarts += 1
        start = last_idx + 1
        if start >= nscn:
            return restarts


def tlc_cmd(module, cfg, workers=1, extra=None, heap="4g", metadir=None):
    cmd = ["java", "-Xmx" + heap, "-XX:+UseParallelGC", "-cp", "/opt/veriftools/tla/tla2tools.jar:/opt/veriftools/tla/CommunityModules-deps.jar",
           "tlc2.TLC", "-workers", str(workers), "-config", cfg, "-metadir", metadir, "-noGenerateSpecTE"]
    if extra:
        cmd += extra
    cmd.append(module)
    return cmd


_tlc_launcher = None


def tlc_launcher():
    """use the installed `tlc` wrapper (classpath incl. CommunityModules)"""
    global _tlc_launcher
    if _tlc_launcher is None:
        _tlc_launcher = shutil.which("tlc")
        if not _tlc_launcher:
            raise Infra("tlc not on PATH")
    return _tlc_launcher


def run_tlc(module, cfg, env_extra=None, workers=1, extra=None, timeout=3000, heap=None):
    md = tempfile.mkdtemp(prefix="tlcmeta_")
    try:
        cmd = [tlc_launcher(), "-workers", str(workers), "-config", cfg, "-metadir", md, "-noGenerateSpecTE"]
        if extra:
            cmd += extra
        cmd.append(module)
        env = dict(os.environ)
        if heap:
            env["JAVA_TOOL_OPTIONS"] = (env.get("JAVA_TOOL_OPTIONS", "") + " -Xss512m -Xmx" + heap).strip()
        if env_extra:
            env.update(env_extra)
        try:
            p = subprocess.run(cmd, cwd=SPEC, capture_output=True, text=True, env=env, timeout=timeout)
        except subprocess.TimeoutExpired:
            raise Infra("TLC timed out: " + " ".join(cmd))
        return p.returncode, p.stdout + p.stderr
    finally:
        shutil.rmtree(md, ignore_errors=True)


def tlc_errors(out):
    """the informative part of a TLC failure (state dumps removed)"""
    keep, lines = [], out.splitlines()
    for i, ln in enumerate(lines):
        if ln.startswith("Error:") or "Exception" in ln or "Attempted" in ln or ln.startswith("line "):
            keep.extend(x for x in lines[i:i + 6] if len(x) < 400 and ":>" not in x and "|->" not in x)
    tail = [x for x in lines[-12:] if len(x) < 300 and ":>" not in x]
    return "\n".join(keep[:60] + ["..."] + tail)


def validate_trace(trace, module="TraceCore.tla", cfg="TraceCore.cfg", timeout=900, heap="6g"):
    """returns verdict dict {bad:[...], scenarios:n, events:n}; raises Infra on TLC failure"""
    rc, out = run_tlc(module, cfg, env_extra={"TRACE": os.path.abspath(trace)}, workers=1, timeout=timeout, heap=heap)
    m = re.search(r'<<"VERDICT", "(.*)">>', out)
    if not m:
        raise Infra("validator produced no verdict for %s (rc=%d):\n%s" % (trace, rc, tlc_errors(out)))
    js = m.group(1).encode().decode("unicode_escape") if "\\" in m.group(1) else m.group(1)
    v = json.loads(js)
    if "violated" in out and "Postcondition" in out or rc != 0:
        raise Infra("validator did not consume the whole trace %s (rc=%d):\n%s" % (trace, rc, out[-3000:]))
    sm = re.search(r"(\d+) states generated, (\d+) distinct states", out)
    v["tlc_states"] = int(sm.group(2)) if sm else 0
    return v


def model_check(module, cfg, workers=8, timeout=3000, extra=None, heap="8g", need_actions=None):
    """run TLC on a bounded model; returns dict(states, distinct, coverage, out). Invariant violation -> 'violation' key"""
    rc, out = run_tlc(module, cfg, workers=workers, timeout=timeout, extra=(extra or []) + ["-coverage", "1"], heap=heap)
    res = {"rc": rc, "out": out}
    sm = re.findall(r"(\d+) states generated, (\d+) distinct states found", out)
    if sm:
        res["generated"], res["distinct"] = int(sm[-1][0]), int(sm[-1][1])
    if "Invariant" in out and "is violated" in out or "Temporal properties were violated" in out or "Action property" in out and "violated" in out:
        res["violation"] = True
    elif rc != 0 or not sm:
        raise Infra("TLC failed on %s (rc=%d):\n%s" % (module, rc, out[-4000:]))
    return res


# ---------------------------------------------------------------------------------------------
def load_known():
    p = os.path.join(ROOT, "known_findings.json")
    if not os.path.exists(p):
        return []
    return json.load(open(p))


def match_known(prop, sig, known):
    """sig: dict describing a failing scenario (cfg of the scenario + why).  A finding matches when every
    key of its 'sig' equals the scenario's value (so findings are specific, never per property)."""
    for k in known:
        props = k.get("properties", [k.get("property")])
        if k.get("status") != "open" or (prop not in props and "*" not in props):
            continue
        if all(_sig_ok(sig, a, b) for a, b in k["sig"].items()):
            return k
    return None


def _num(x):
    try:
        return int(str(x), 0)
    except Exception:
        return None


def _sig_ok(sig, key, want):
    """sig keys: plain = equality (numbers compared numerically, so "0x40021" = 262177);
    key__le / key__ge = numeric bound; key__in = membership"""
    if key.endswith("__le") or key.endswith("__ge"):
        v = _num(sig.get(key[:-4]))
        if v is None:
            return False
        return v <= _num(want) if key.endswith("__le") else v >= _num(want)
    if key.endswith("__in"):
        v = sig.get(key[:-4])
        return any(_sig_ok({"x": v}, "x", w) for w in want)
    v = sig.get(key)
    if _num(v) is not None and _num(want) is not None:
        return _num(v) == _num(want)
    return str(v) == str(want)


def write_evidence(prop, tier, level, coverage, wall, violations, assumptions=None):
    os.makedirs(os.path.join(ROOT, "evidence"), exist_ok=True)
    ev = {"property_id": prop, "tier": tier, "seed": SEED, "level": level, "coverage": coverage,
          "assumptions": assumptions or [], "wall_s": round(wall, 1), "violations": violations}
    with open(os.path.join(ROOT, "evidence", prop + ".json"), "w") as f:
        json.dump(ev, f, indent=1)


def parallel(jobs, fn, nproc=NPROC):
    """run fn(job) for each job in a thread pool (the work is in subprocesses)"""
    from concurrent.futures import ThreadPoolExecutor
    with ThreadPoolExecutor(max_workers=nproc) as ex:
        return list(ex.map(fn, jobs))


def split_scenarios(lines, nshards):
    """split a script (list of lines) into shards at scenario boundaries"""
    scns, cur = [], []
    for ln in lines:
        if ln.startswith("scn ") and cur:
            scns.append(cur)
            cur = []
        cur.append(ln)
    if cur:
        scns.append(cur)
    shards = [[] for _ in range(max(1, min(nshards, len(scns))))]
    for i, s in enumerate(scns):
        shards[i % len(shards)].extend(s)
    return shards, len(scns)


def scenario_text(lines, sid):
    """extract the scenario with id sid from script lines"""
    out, on = [], False
    for ln in lines:
        if ln.startswith("scn "):
            on = ln.split()[1] == str(sid)
        if on:
            out.append(ln)
    return out


def drive_and_validate(prop, tier, exe, script_lines, module="TraceCore.tla", cfg="TraceCore.cfg", nshards=NPROC, timeout=20, tag="core", passes=1):
    """shard, drive, validate.  Returns (verdicts merged, outdir, shard files)"""
    od = os.path.join(ROOT, "out", prop, tier)
    os.makedirs(od, exist_ok=True)
    if tier != "quick":
        # thorough scenarios are long (thousands of logged values per call): many small traces instead of 16 huge ones,
        # and fewer validators at a time, so that TLC's heap (one trace is deserialised at once) stays inside the machine
        nscn0 = sum(1 for ln in script_lines if ln.startswith("scn "))
        nshards = max(nshards, min(384, nscn0 // 24))
    shards, nscn = split_scenarios(script_lines, nshards)
    jobs = []
    for i, sh in enumerate(shards):
        sp = os.path.join(od, "%s_%02d.script" % (tag, i))
        with open(sp, "w") as f:
            f.write("\n".join(sh) + "\n")
        jobs.append((sp, os.path.join(od, "%s_%02d.ndjson" % (tag, i))))

    def one(job):
        sp, ep = job
        restarts = run_driver(exe, sp, ep, timeout=timeout)
        for _ in range(passes - 1):      # the same script again in a fresh process, appended to the same trace (C07: repeat runs)
            restarts += run_driver(exe, sp, ep, timeout=timeout, append=True)
        v = validate_trace(ep, module, cfg)
        v["restarts"] = restarts
        v["script"] = sp
        v["trace"] = ep
        return v
    vs = parallel(jobs, one, nproc=NPROC if tier == "quick" else max(4, NPROC // 2))
    merged = {"bad": [], "scenarios": 0, "events": 0, "lines": 0, "tlc_states": 0, "restarts": 0}
    for v in vs:
        for b in v["bad"]:
            b["script"] = v["script"]
            b["trace"] = v["trace"]
            merged["bad"].append(b)
        for k in ("scenarios", "events", "lines", "tlc_states", "restarts"):
            merged[k] += v.get(k, 0)
    return merged


def confirm_bad(prop, tier, exe, bad, module="TraceCore.tla", cfg="TraceCore.cfg", timeout=20, passes=1):
    """re-run each rejected scenario alone in a fresh process; keep those rejected again.
    Returns list of dicts with 'replay' path and scenario cfg."""
    od = os.path.join(ROOT, "out", prop, tier, "replay")
    os.makedirs(od, exist_ok=True)
    jobs = []
    for b in bad:
        lines = open(b["script"]).read().splitlines()
        sc = scenario_text(lines, b["s"])
        rp = os.path.join(od, "s%d.script" % b["s"])
        with open(rp, "w") as f:
            f.write("\n".join(sc) + "\n")
        jobs.append((b, rp))

    def one(job):
        b, rp = job
        ep = rp.replace(".script", ".ndjson")
        run_driver(exe, rp, ep, timeout=timeout)
        for _ in range(passes - 1):
            run_driver(exe, rp, ep, timeout=timeout, append=True)
        v = validate_trace(ep, module, cfg)
        if v["bad"]:
            r = dict(b)
            r["replay"] = os.path.relpath(rp, ROOT)
            r["why2"] = v["bad"][0]["why"]
            # scenario cfg from the reset line
            first = json.loads(open(ep).readline())
            r["cfg"] = first.get("cfg", {})
            # the format the rejected call was working on (multi-handle scenarios have no single format in cfg)
            bi, bh, efmt = v["bad"][0]["i"], None, None
            evs = [json.loads(l) for l in open(ep)]
            for e2 in evs:
                if e2.get("i") == bi and e2.get("op") not in ("reset",):
                    bh = e2.get("h")
            for e2 in evs:
                if e2.get("op") == "open" and e2.get("h") == bh and e2.get("i", 0) <= bi:
                    efmt = e2.get("fmt", e2.get("afmt"))
                    if not efmt:
                        efmt = e2.get("afmt")
            if efmt and "fmt" not in r["cfg"]:
                r["cfg"]["fmt"] = efmt
            # length of the file the rejected call was given (known findings about tiny files are keyed by it)
            for e2 in evs:
                if e2.get("i") == bi and "flen" in e2:
                    r["evflen"] = e2["flen"]
            return r
        return None
    return [r for r in parallel(jobs, one) if r]


def finish(prop, tier, level, coverage, t0, confirmed, sigfn=None, assumptions=None):
    """print KNOWN-FINDING / VIOLATION lines, write evidence, return exit code"""
    known = load_known()
    viol = 0
    seen_known = {}
    for r in confirmed:
        sig = dict(r.get("cfg", {}))
        sig["why"] = r.get("why2", r.get("why"))
        sig["op"] = r.get("op")
        if "evflen" in r:
            sig["evflen"] = r["evflen"]
        if _num(sig.get("fmt")) is not None:
            sig["major"] = (_num(sig["fmt"]) >> 16) & 0xFFF
            sig["sub"] = _num(sig["fmt"]) & 0xFFFF
        if sigfn:
            sig.update(sigfn(r))
        k = match_known(prop, sig, known)
        if k:
            seen_known.setdefault(k["id"], [k, 0])[1] += 1
        else:
            viol += 1
            print("VIOLATION property=%s replay=%s why=%s cfg=%s" % (prop, r.get("replay"), sig.get("why"), json.dumps(r.get("cfg", {}), sort_keys=True)))
    for kid, (k, n) in sorted(seen_known.items()):
        print("KNOWN-FINDING: property=%s %s [%s, %d scenario(s)]" % (prop, k["what"], kid, n))
    coverage = dict(coverage)
    coverage["known_findings_hit"] = sorted(seen_known.keys())
    write_evidence(prop, tier, level, coverage, time.time() - t0, viol, assumptions)
    sys.stdout.flush()
    return 1 if viol else 0


def main_wrap(fn):
    try:
        sys.exit(fn())
    except Infra as e:
        log("INFRA-ERROR:", e)
        sys.exit(2)
