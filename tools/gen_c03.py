"""C03: structure-aware mutations of valid files (inputs only; the oracle is TraceCore in its hostile class)."""
import json, os, random, struct
import vlib, scen, formats, gen_core

HOSTILE32 = [0, 1, 2, 0x7F, 0x80, 0xFF, 0x100, 0x7FFF, 0x8000, 0xFFFF, 0x10000, 0x7FFFFFFF, 0x80000000, 0xFFFFFFFF, 0xFFFFFFFE, 0x7FFFFFFE, 0x01000000, 0x00FFFFFF]


def seed_files(exe, fmts, rate, outdir, nframes=None, meta=True, tag="seed"):
    """phase 1: valid files of every format with metadata and chunks where the container takes them; returns [(fmt, ch, bytes, dataoffset)]
    nframes: function (fmt, ch) -> frames of noise to write (default 100); meta False: audio only"""
    S = scen.Script()
    paths = []
    for fmt, ch in fmts:
        T = gen_core.type_for(fmt)
        S.scn(fmt="0x%x" % fmt, ch=ch, kind="seed")
        p = os.path.join(outdir, "%s_%x_%d.bin" % (tag, fmt, ch))
        rt = scen.route_for(fmt)
        S.add("file 1 new", "open 0 %s w 1 %d %d %d" % (rt, fmt, ch, rate))
        if meta:
            S.add("setstr 0 1 5469746c65", "setstr 0 4 417274697374", "setstr 0 5 436f6d6d656e74",
                  "setchunk 0 41424344 9 3", "setmeta 0 cues 3 5 3", "setmeta 0 bext 4 9 30", "setmeta 0 cart 5 6 12", "setmeta 0 chmap 1 1")
        S.add("write 0 %s f %d gen noise 11 0" % (T, nframes(fmt, ch) if nframes else 100), "close 0",
              "open 1 %s r 1 %d %d %d" % (rt, fmt if scen.major(fmt) == scen.RAW else 0, ch, rate), "close 1", "file 1 save %s" % p)
        paths.append((fmt, ch, p))
    sp, ep = os.path.join(outdir, tag + ".script"), os.path.join(outdir, tag + ".ndjson")
    open(sp, "w").write("\n".join(S.lines) + "\n")
    vlib.run_driver(exe, sp, ep)
    offs, cur = {}, None
    for ln in open(ep):
        e = json.loads(ln)
        if e["op"] == "reset":
            cur = (e["cfg"]["fmt"], e["cfg"]["ch"])
        elif e["op"] == "open" and e["h"] == 1 and e.get("ok") == 1:
            offs[cur] = e["st"]["do"]
    out = []
    for fmt, ch, p in paths:
        if os.path.exists(p) and os.path.getsize(p) > 0:
            out.append((fmt, ch, open(p, "rb").read(), offs.get((fmt, ch), 64)))
    return out


def mutants(data, dataoff, rng, n):
    """n mutated byte strings: field substitution in the header region (both byte orders), truncations, flips, splices"""
    hdr = max(16, min(dataoff if dataoff > 0 else 64, len(data), 2048))
    out = []
    for _ in range(n):
        b = bytearray(data)
        r = rng.random()
        if r < 0.45 and hdr >= 4:
            off = rng.randrange(0, hdr - 3)
            w = rng.choice([1, 2, 4, 4, 4, 8])
            v = rng.choice(HOSTILE32)
            if rng.random() < 0.3:          # neighbour of the current value
                cur = int.from_bytes(b[off:off + 4], "little")
                v = (cur + rng.choice([-1, 1, 2, -2, 0x100, -0x100])) & 0xFFFFFFFF
            raw = (v & ((1 << (8 * min(w, 4))) - 1)).to_bytes(min(w, 4), rng.choice(["little", "big"]))
            if w == 8:
                raw = raw + rng.choice([b"\x00\x00\x00\x00", b"\xff\xff\xff\xff", b"\x7f\xff\xff\xff"])
            b[off:off + len(raw)] = raw
        elif r < 0.6:
            b = b[:rng.randrange(0, min(len(b), hdr + 8) + 1)]
        elif r < 0.75:
            for _k in range(rng.choice([1, 1, 2, 5])):
                off = rng.randrange(0, min(len(b), hdr + 16))
                b[off] ^= 1 << rng.randrange(8)
        elif r < 0.85:
            # duplicate / delete / move a slice of the header (chunk sized pieces)
            a = rng.randrange(8, max(9, hdr))
            ln = rng.choice([4, 8, 12, 16, 24, 36])
            piece = b[a:a + ln]
            op = rng.choice(["dup", "del", "ins"])
            if op == "dup":
                b[a:a] = piece
            elif op == "del":
                del b[a:a + ln]
            else:
                c = rng.randrange(8, max(9, hdr))
                b[c:c] = piece
        elif r < 0.95:
            # keep the magic, randomise what follows
            k = rng.choice([4, 8, 12, 16])
            tail = bytes(rng.randrange(256) for _ in range(rng.choice([0, 4, 40, 200])))
            b = b[:k] + tail
        else:
            b = bytearray(rng.randrange(256) for _ in range(rng.choice([0, 1, 11, 12, 13, 44, 100])))
        out.append(bytes(b))
    return out


def systematic_mutants(data, dataoff, limit=160):
    """every 2 byte aligned field of the first 'limit' header bytes: value +1, -1, doubled, halved (both byte orders treated alike:
    the low and the high byte are each incremented); fields that size codec blocks, counts and chunk lengths live here"""
    hdr = max(16, min(dataoff if dataoff > 0 else 64, len(data), limit))
    out = []
    for off in range(0, hdr - 1, 2):
        for kind in range(5):
            b = bytearray(data)
            if kind == 0:
                b[off] = (b[off] + 1) & 0xFF
            elif kind == 1:
                b[off] = (b[off] - 1) & 0xFF
            elif kind == 2:
                b[off + 1] = (b[off + 1] + 1) & 0xFF
            elif kind == 3:
                v = b[off] | (b[off + 1] << 8)
                v = (v * 2) & 0xFFFF
                b[off], b[off + 1] = v & 0xFF, v >> 8
            else:
                v = b[off] | (b[off + 1] << 8)
                v = v // 2
                b[off], b[off + 1] = v & 0xFF, v >> 8
            if bytes(b) != data:
                out.append(bytes(b))
    return out


def hostile_mutants(data, dataoff, limit=320):
    """every 2 byte aligned field of the header region set to 0xFFFF, 0x7FFF / 0xFF7F, 0x8000 / 0x0080, 0x0A00 / 0x000A (counts just above
    typical table limits) and 0; every 4 byte aligned field set to 0xFFFFFFFF, 0x7FFFFFFF (both orders), 0x80000000 (both orders)"""
    hdr = max(16, min(dataoff if dataoff > 0 else 64, len(data), limit))
    out = []
    for off in range(0, hdr - 1, 2):
        for pat in (b"\xff\xff", b"\x7f\xff", b"\xff\x7f", b"\x80\x00", b"\x00\x80", b"\x0a\x00", b"\x00\x0a", b"\x00\x00"):
            if data[off:off + 2] != pat:
                out.append(data[:off] + pat + data[off + 2:])
    for off in range(0, hdr - 3, 4):
        for pat in (b"\xff\xff\xff\xff", b"\x7f\xff\xff\xff", b"\xff\xff\xff\x7f", b"\x80\x00\x00\x00", b"\x00\x00\x00\x80", b"\x00\x00\x00\x00"):
            if data[off:off + 4] != pat:
                out.append(data[:off] + pat + data[off + 4:])
    return out


def chunk_list(data, major):
    """[(start, end)] of the chunks of a RIFF / RF64 / W64 / AIFF / CAF file (end includes padding); stops at the first chunk that does not fit"""
    out = []
    if major in (1, 0x13, 0x22, 2):
        big = major == 2
        pos = 12
        while pos + 8 <= len(data):
            n = struct.unpack(">I" if big else "<I", data[pos + 4:pos + 8])[0]
            if data[pos:pos + 4] in (b"data", b"SSND"):
                out.append((pos, len(data)))
                break
            end = pos + 8 + n + (n & 1)
            if end > len(data):
                break
            out.append((pos, end))
            pos = end
    elif major == 0xb:
        pos = 40
        while pos + 24 <= len(data):
            n = struct.unpack("<Q", data[pos + 16:pos + 24])[0]
            if data[pos:pos + 4] == b"data":
                out.append((pos, len(data)))
                break
            end = pos + ((n + 7) & ~7)
            if n < 24 or end > len(data):
                break
            out.append((pos, end))
            pos = end
    elif major == 0x18:
        pos = 8
        while pos + 12 <= len(data):
            n = struct.unpack(">q", data[pos + 4:pos + 12])[0]
            if data[pos:pos + 4] == b"data":
                out.append((pos, len(data)))
                break
            end = pos + 12 + n
            if n < 0 or end > len(data):
                break
            out.append((pos, end))
            pos = end
    return out


def chunk_mutants(data, major):
    """structure-level changes of a chunked file, sizes left consistent: every header chunk twice and three times in a row, every header
    chunk repeated just in front of the audio, every header chunk removed, every pair of neighbours swapped"""
    cl = chunk_list(data, major)
    if len(cl) < 2:
        return []
    hdr, body = cl[:-1], cl[-1]
    out = []
    for a, b in hdr:
        c = data[a:b]
        out.append(data[:b] + c + data[b:])
        out.append(data[:b] + c + c + data[b:])
        out.append(data[:body[0]] + c + data[body[0]:])
        out.append(data[:a] + data[b:])
    for (a, b), (c, d) in zip(hdr, hdr[1:]):
        out.append(data[:a] + data[c:d] + data[a:b] + data[d:])
    # (RIFF / FORM sizes are not adjusted: the readers take the chunk sizes, and a wrong outer size is one more thing to survive)
    return out


CALLS = ["read 0 s f 7", "read 0 i i 12", "read 0 f f 3", "read 0 d i 24", "read 0 s i 5000", "read 0 f f 100000", "seek 0 0 0", "seek 0 3 0", "seek 0 -1 2", "seek 0 2 1", "seek 0 0 2", "seek 0 5 16",
         "seek 0 1000000 0", "seek 0 0 17", "getstr 0 1", "getstr 0 4", "info 0", "calc 0 CALC_SIGNAL_MAX", "calc 0 CALC_NORM_MAX_ALL_CHANNELS", "calc 0 GET_SIGNAL_MAX", "calc 0 GET_MAX_ALL_CHANNELS",
         "chit 0 0 null", "chget 0 0 -1", "chnext 0 0", "chget 0 0 2", "chit 0 0 41424344", "chget 0 0 -1", "errq 0", "cmd 0 GET_NORM_FLOAT 0", "read 0 r i 64",
         "getmeta 0 cues 0 0", "getmeta 0 inst 0 0", "getmeta 0 bext 0 0", "getmeta 0 cart 0 0", "getmeta 0 chmap 0 0", "getstr 0 2", "getstr 0 5"]


def scenarios(S, seeds, rng, per_seed, routes=("vio",), ncalls=12, systematic=False):
    for fmt, ch, data, do in seeds:
        ms = mutants(data, do, rng, per_seed)
        if systematic:
            ms = ms + systematic_mutants(data, do)
        if systematic == 2:
            ms = ms + hostile_mutants(data, do)
        if systematic:
            ms = ms + chunk_mutants(data, scen.major(fmt))
        for m in ms:
            rt = rng.choice(routes)
            S.scn(fmt="0x%x" % fmt, ch=ch, kind="c03", relax=1, route=rt, nodata=1)
            S.add("file 1 hex %s" % (m.hex() if m else "-"))
            S.add("open 0 %s r 1 %d %d %d" % (rt, fmt if scen.major(fmt) == scen.RAW else 0, ch, 8000))
            for _ in range(ncalls):
                S.add(rng.choice(CALLS))
            S.add("close 0")
